"""Evaluate the seeded (deliberately planted) changes under /verif/seeded/<id>/ against the checks.

For every seeded change: a scratch git worktree of /repo is created under /tmp, the patch applied, the repository's own
tests and the demonstration are run (tests must pass, demo must fail), then the selected checks run against the
scratch tree (VERIF_REPO / VERIF_OUT redirect the code under test and the evidence files, so /repo and /verif/evidence
are never touched), and the worktree is removed.  Results go to seeded/<id>/result.json and seeded/README.md.

usage: python tools/seeded_matrix.py [--only ID ...] [--checks C01 C02 ...|all|own] [--jobs N]
"""
import argparse
import concurrent.futures
import json
import os
import shutil
import subprocess
import sys

VERIF = os.path.dirname(os.path.dirname(os.path.abspath(__file__)))
ALL = ['C%02d' % i for i in range(1, 21)]
# the checks whose properties touch the same mechanisms (used by --checks neigh: a full 80 x 20 matrix costs ~7 CPU-hours)
NEIGH = dict(C01='C01 C06 C13 C11', C02='C02 C06 C04 C20', C03='C03 C04 C05 C08 C09 C20 C12', C04='C04 C20 C05 C03 C12', C05='C05 C03 C08 C04', C06='C06 C01 C02',
             C07='C07 C08 C05 C04', C08='C08 C03 C04 C05', C09='C09 C03 C20 C10', C10='C10 C09 C14 C03', C11='C11 C12 C13 C20', C12='C12 C04 C20 C11',
             C13='C13 C01 C11 C20 C10', C14='C14 C10 C16 C17', C15='C15 C16 C17 C12', C16='C16 C14 C17 C15', C17='C17 C14 C16', C18='C18 C19', C19='C19 C18',
             C20='C20 C04 C12 C13')
PY = '/venv/bin/python'


def sh(cmd, **kw):
    return subprocess.run(cmd, capture_output=True, text=True, **kw)


def evaluate(sid, checks, tier='quick', skip_done=False):
    d = os.path.join(VERIF, 'seeded', sid)
    meta = json.load(open(os.path.join(d, 'meta.json')))
    wt = '/tmp/mx_%s' % sid
    out = wt + '.out'
    sh(['git', '-C', '/repo', 'worktree', 'remove', '--force', wt])
    shutil.rmtree(wt, ignore_errors=True)
    shutil.rmtree(out, ignore_errors=True)
    r = sh(['git', '-C', '/repo', 'worktree', 'add', '--detach', wt, 'HEAD'])
    if r.returncode:
        return dict(id=sid, error='worktree: ' + r.stderr[-300:])
    res = dict(id=sid, property=meta['property'], caught_by=[], missed_by=[], checks={})
    old = os.path.join(d, 'result.json')
    if os.path.exists(old):
        try:
            res['checks'] = json.load(open(old)).get('checks', {})      # keep verdicts of checks not re-run now
        except Exception:
            pass
    try:
        env = dict(os.environ, PYTHONPATH=wt)
        demo = os.path.join(d, meta.get('demo', 'demo.py'))
        res['demo_clean'] = sh([PY, demo], env=env, cwd=d).returncode
        a = sh(['git', '-C', wt, 'apply', os.path.join(d, 'patch.diff')])
        if a.returncode:
            res['error'] = 'apply: ' + a.stderr[-300:]
            return res
        t = sh([PY, '-m', 'pytest', '-q', '-p', 'no:cacheprovider', '-x'], cwd=wt)
        res['tests'] = t.stdout.strip().splitlines()[-1] if t.stdout.strip() else t.stderr[-200:]
        res['tests_pass'] = t.returncode == 0
        res['demo_mutated'] = sh([PY, demo], env=env, cwd=d).returncode
        want = checks if checks not in (['own'], ['neigh']) else ([meta['property']] if checks == ['own'] else NEIGH[meta['property']].split())
        if skip_done:
            want = [c for c in want if c not in res['checks']]
        env2 = dict(os.environ, VERIF_REPO=wt, VERIF_OUT=out, VERIF_SEED='1')
        for c in want:
            p = sh([PY, '-m', 'mc.run', c, '--tier', tier], cwd=VERIF, env=env2)
            viol = [l for l in p.stdout.splitlines() if l.startswith('VIOLATION')]
            keys = [l.strip().split(' ')[0] for l in p.stdout.splitlines() if l.strip().startswith('key=')]
            res['checks'][c] = dict(exit=p.returncode, violations=len(viol), keys=keys[:6], tail=(p.stdout + p.stderr)[-300:] if p.returncode not in (0, 1) else '')
        res['caught_by'] = sorted(c for c, v in res['checks'].items() if v['exit'] == 1 and v['violations'])
        res['missed_by'] = sorted(c for c, v in res['checks'].items() if not (v['exit'] == 1 and v['violations']))
    finally:
        sh(['git', '-C', '/repo', 'worktree', 'remove', '--force', wt])
        shutil.rmtree(wt, ignore_errors=True)
        shutil.rmtree(out, ignore_errors=True)
    json.dump(res, open(os.path.join(d, 'result.json'), 'w'), indent=1)
    return res


def readme():
    rows = []
    base = os.path.join(VERIF, 'seeded')
    for sid in sorted(os.listdir(base)):
        rp = os.path.join(base, sid, 'result.json')
        mp = os.path.join(base, sid, 'meta.json')
        if not os.path.exists(mp):
            continue
        meta = json.load(open(mp))
        r = json.load(open(rp)) if os.path.exists(rp) else {}
        own = meta['property']
        caught = r.get('caught_by', [])
        rows.append('| %s | %s | %s | %s | %s | %s |' % (sid, own, meta.get('summary', '')[:110].replace('|', '/'), 'yes' if own in caught else ('NO' if r else '?'),
                                                    ' '.join(c for c in caught if c != own) or '-', 'pass' if r.get('tests_pass') else '?'))
    with open(os.path.join(base, 'README.md'), 'w') as f:
        f.write('# Seeded changes and the checks that catch them\n\nEach directory holds `patch.diff` (apply with `git -C /repo apply`), the demonstration, `meta.json` and `result.json`\n'
                '(written by `tools/seeded_matrix.py`, which evaluates the patch in a scratch worktree and never touches /repo).\n\n'
                '| id | property | change | caught by its own check | also caught by | repo tests |\n|---|---|---|---|---|---|\n' + '\n'.join(rows) + '\n')


def main():
    ap = argparse.ArgumentParser()
    ap.add_argument('--only', nargs='*')
    ap.add_argument('--checks', nargs='*', default=['own'])
    ap.add_argument('--jobs', type=int, default=2)
    ap.add_argument('--tier', default='quick')
    ap.add_argument('--skip-done', action='store_true', help='do not re-run checks that already have a verdict in result.json')
    a = ap.parse_args()
    checks = ALL if a.checks == ['all'] else a.checks
    base = os.path.join(VERIF, 'seeded')
    ids = a.only or sorted(d for d in os.listdir(base) if os.path.exists(os.path.join(base, d, 'meta.json')))
    with concurrent.futures.ThreadPoolExecutor(a.jobs) as ex:
        for r in ex.map(lambda s: evaluate(s, checks, a.tier, a.skip_done), ids):
            print(json.dumps({k: r.get(k) for k in ('id', 'property', 'tests_pass', 'demo_clean', 'demo_mutated', 'caught_by', 'missed_by', 'error')}))
    readme()


if __name__ == '__main__':
    main()
