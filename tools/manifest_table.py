NOTES = ('All checks are bounded exhaustive explorations of the real code in /repo (no sampling in any verdict); '
         'VERIF_SEED only selects which explored cases are printed as samples. See DESIGN.md.')
NOT_APPLICABLE = {}
RV = 'trusted: reference decoder/ISS mc/ref/rv32.py as anchored by mc/selftest.py (ISA manual tables, golden vectors, llvm-mc-14 in both directions), CPython, struct'
CLAIMED = {
 'C01': dict(technique='exhaustive enumeration of the operand product on the real encoders + text front end, oracle = independent reference decoder',
             text='Every (mnemonic, operand tuple) point of the stated product is executed on the real encoder / assembler and the emitted word is decoded by an independent reference decoder; decode(encode(t))==t on all t also shows injectivity. Thorough enumerates the complete product the property names (~2.6e8 points); quick a stated sub-product.',
             note=RV + '; quick tier is a stated sub-product, not the full product', ref='DESIGN.md section 3 C01'),
 'C02': dict(technique='exhaustive enumeration: all operand tuples in and around the legal sets (forward) and all 65536 halfwords (reverse), oracle = reference RVC decoder',
             text='Forward: every c.* mnemonic x all 32 registers per position x every immediate from far below to far above the legal set runs on the real encoder and, when accepted, through the text front end; accepted => legal RV32C halfword decoding to exactly the named operands. Reverse: all 65536 halfwords; every legal one is reproduced from its canonical text and by the encoder. Image sets are compared per mnemonic (one-to-one). Complete in both tiers.',
             note=RV, ref='DESIGN.md section 3 C02'),
 'C06': dict(technique='exhaustive enumeration of operand windows around every legal-set boundary on the real encoders and text front end, oracle = independent legality table + reference decoder',
             text='For all 93 mnemonics every operand position sweeps a window reaching far beyond its legal set (all residues, wrap-around values, registers -3..40, all spellings and near-misses), alone on three base tuples and pairwise; accepted <=> legal and accepted => decodes to the operands named. Complete over the stated windows.',
             note=RV + '; legality table mc/isa.py (manual + docs); CSR range = signed 12 bit as the reference gives none', ref='DESIGN.md section 3 C06'),
}
