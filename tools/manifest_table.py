NOTES = ('All checks are bounded exhaustive explorations of the real code in /repo (no sampling in any verdict); '
         'VERIF_SEED only selects which explored cases are printed as samples. See DESIGN.md.')
NOT_APPLICABLE = {}
RV = 'trusted: reference decoder/ISS mc/ref/rv32.py as anchored by mc/selftest.py (ISA manual tables, golden vectors, llvm-mc-14 in both directions), CPython, struct'
CLAIMED = {
 'C01': dict(technique='exhaustive enumeration of the operand product on the real encoders + text front end, oracle = independent reference decoder',
             text='Every (mnemonic, operand tuple) point of the stated product is executed on the real encoder / assembler and the emitted word is decoded by an independent reference decoder; decode(encode(t))==t on all t also shows injectivity. Thorough enumerates the complete product the property names (~2.6e8 points); quick a stated sub-product.',
             note=RV + '; quick tier is a stated sub-product, not the full product', ref='DESIGN.md section 3 C01'),
}
