#!/bin/bash
# run every quick check once against /repo and print one line each (use after touching shared modules)
cd "$(dirname "$0")/.."
rc=0
for i in $(seq -w 1 20); do
  out=$(timeout $([ "${1:-quick}" = thorough ] && echo 7200 || echo 1500) /venv/bin/python -m mc.run C$i --tier ${1:-quick} 2>&1); s=$?
  echo "$out" | grep -E "^(VIOLATION|KNOWN-FINDING)" | cut -c1-160
  echo "$out" | tail -1 | sed "s/^/[exit $s] /"
  [ $s -ne 0 ] && rc=1
done
exit $rc
