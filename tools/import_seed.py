"""import the deliverables of a bug-planting sub-agent (/tmp/wt/<PROP>/mut_K.diff, demo_K.py, notes_K.txt) into /verif/seeded/<PROP>_<K>/"""
import glob, json, os, shutil, sys
VERIF = os.path.dirname(os.path.dirname(os.path.abspath(__file__)))
src, prop = sys.argv[1], sys.argv[2]
tag = sys.argv[3] if len(sys.argv) > 3 else ''
for diff in sorted(glob.glob(os.path.join(src, 'mut_*.diff'))):
    k = os.path.basename(diff)[4:-5]
    sid = '%s%s_%s' % (prop, tag, k.upper())
    d = os.path.join(VERIF, 'seeded', sid)
    os.makedirs(d, exist_ok=True)
    shutil.copy(diff, os.path.join(d, 'patch.diff'))
    shutil.copy(os.path.join(src, 'demo_%s.py' % k), os.path.join(d, 'demo.py'))
    notes = open(os.path.join(src, 'notes_%s.txt' % k)).read()
    open(os.path.join(d, 'notes.txt'), 'w').write(notes)
    first = ' '.join(notes.strip().splitlines()[:3])[:300]
    json.dump(dict(property=prop, summary=first, needs_to_manifest='see notes.txt', origin='fresh sub-agent given only the property text and a scratch worktree',
                   demo='demo.py', verified='tools/seeded_matrix.py: repo tests pass with the patch, demo exits 0 on the clean tree and 1 with the patch (see result.json)'),
              open(os.path.join(d, 'meta.json'), 'w'), indent=1)
    print('imported', sid)
