"""regenerates /verif/MANIFEST.json from the table below (keeps the file valid at all times)"""
import json, os
PY = '/venv/bin/python'
CLAIMED = {
 # id: (technique, level text, note, design_ref)
}
import importlib, sys
sys.path.insert(0, os.path.dirname(os.path.dirname(os.path.abspath(__file__))))
from tools.manifest_table import CLAIMED, NOT_APPLICABLE, NOTES
props = [json.loads(l) for l in open('/verif/properties.jsonl')]
checks = []
for p in props:
    pid = p['id']
    if pid not in CLAIMED:
        continue
    c = CLAIMED[pid]
    checks.append(dict(
        property_id=pid,
        quick_cmd='%s -m mc.run %s --tier quick' % (PY, pid),
        thorough_cmd='%s -m mc.run %s --tier thorough' % (PY, pid),
        evidence_file='/verif/evidence/%s.json' % pid,
        replay_cmd_template='%s -m mc.run %s --replay {path}' % (PY, pid),
        engine='mc',
        level_claimed=dict(category='model_checking', text=c['text'], design_ref=c['ref']),
        level_note=c['note'],
        technique=c['technique']))
na = [dict(property_id=p['id'], reason=NOT_APPLICABLE.get(p['id'], 'check not built yet in this round (planned in DESIGN.md section 3)'))
      for p in props if p['id'] not in CLAIMED]
m = dict(version=1,
    setup_cmd='cd /verif && /venv/bin/python -m mc.selftest',
    hooks=dict(guard='BRONZEBEARD_VERIF', enable='no hooks are needed: every seam is reachable from outside the repository (DESIGN.md 1.2); checks import /repo working tree directly',
               baseline_off_cmd='cd /repo && /venv/bin/python -m pytest -ra -q -p no:cacheprovider --timeout=900 --continue-on-collection-errors',
               source_commits=[], add_only=True),
    engines=[dict(name='mc', path='/verif/mc', serves_properties=[c['property_id'] for c in checks],
                  kind_free_text='hand-written explicit enumerators (product / history-BFS / choice-deviation DFS) that execute the real Python code in /repo against reference models in /verif/mc/ref')],
    checks=checks, notes=NOTES, not_applicable=na)
json.dump(m, open('/verif/MANIFEST.json', 'w'), indent=1)
print('claimed', len(checks), 'not_applicable', len(na))
