"""Behaviour-preserving changes of /repo (seeded/benign/*.diff) must NOT raise any alarm: each patch is applied to a scratch worktree, the repository's tests
must pass, and every selected quick check must exit 0 against the patched tree (KNOWN-FINDING lines are fine, VIOLATION lines and crashes are not).

A refactoring written against an older commit that no longer applies to HEAD (later `fix:` commits touched the same lines) is judged DIFFERENTIALLY on the
commit it was written for: the checks run against that base commit and against base + patch, and the patched tree may not produce any violation key (or
crash) that the base does not produce as well (the base lacks later fixes, so it legitimately violates some properties - identically with and without a
behaviour-preserving patch).
usage: python tools/benign_check.py [--only NAME ...] [--checks C01 ...]"""
import argparse, glob, json, os, re, shutil, subprocess, sys
VERIF = os.path.dirname(os.path.dirname(os.path.abspath(__file__)))
ALL = ['C%02d' % i for i in range(1, 21)]
ap = argparse.ArgumentParser(); ap.add_argument('--only', nargs='*'); ap.add_argument('--checks', nargs='*', default=ALL); a = ap.parse_args()
RES = os.path.join(VERIF, 'seeded', 'benign', 'result.json')
results = json.load(open(RES)) if os.path.exists(RES) else {}
baselines = results.setdefault('_baselines', {})        # {commit: {check: [keys]}}: what the checks of this /verif say about an older commit of /repo


def git(*args, cwd='/repo', check=False):
    return subprocess.run(['git', '-C', cwd] + list(args), capture_output=True, text=True, check=check)


def base_commit(diff):
    """the newest commit of /repo whose bronzebeard/asm.py (or dfu.py) is the pre-image the patch was written against"""
    text = open(diff).read()
    want = re.findall(r'^diff --git a/(\S+) b/\S+\nindex ([0-9a-f]+)\.\.', text, re.M)
    for c in git('log', '--format=%H').stdout.split():
        if all(git('rev-parse', '%s:%s' % (c, f)).stdout.startswith(blob) for f, blob in want):
            return c
    return None


def worktree(path, commit):
    git('worktree', 'remove', '--force', path)
    shutil.rmtree(path, ignore_errors=True)
    git('worktree', 'add', '--detach', path, commit, check=True)


def drop(path):
    git('worktree', 'remove', '--force', path)
    shutil.rmtree(path, ignore_errors=True); shutil.rmtree(path + '.out', ignore_errors=True)


def run_check(c, wt):
    env = dict(os.environ, VERIF_REPO=wt, VERIF_OUT=wt + '.out', VERIF_SEED='2')
    p = subprocess.run(['/venv/bin/python', '-m', 'mc.run', c, '--tier', 'quick'], cwd=VERIF, env=env, capture_output=True, text=True)
    keys = sorted(set(re.findall(r'^\s+key=(\S+)', p.stdout, re.M)))
    return p, keys


verif_rev = subprocess.run(['git', '-C', VERIF, 'rev-parse', 'HEAD'], capture_output=True, text=True).stdout.strip()
for diff in sorted(glob.glob(os.path.join(VERIF, 'seeded', 'benign', '*.diff'))):
    name = os.path.basename(diff)[:-5]
    if a.only and name not in a.only:
        continue
    wt = '/tmp/bn_' + name
    head = git('rev-parse', 'HEAD').stdout.strip()
    base = head if git('apply', '--check', diff).returncode == 0 else base_commit(diff)
    if base is None:
        results[name] = dict(error='patch applies neither to HEAD nor to any commit of /repo'); continue
    try:
        if base != head:
            # what do the checks say about the base commit itself?  (cached per base commit and /verif revision)
            bl = baselines.setdefault(base, {})
            if bl.get('_verif') != verif_rev:
                bl.clear(); bl['_verif'] = verif_rev
            todo = [c for c in a.checks if c not in bl]
            if todo:
                worktree(wt + '_base', base)
                for c in todo:
                    p, keys = run_check(c, wt + '_base')
                    bl[c] = dict(exit=p.returncode, keys=keys)
                drop(wt + '_base')
        worktree(wt, base)
        ap_ = git('apply', diff, cwd=wt)
        if ap_.returncode:
            results[name] = dict(error='apply: ' + ap_.stderr[-200:]); continue
        t = subprocess.run(['/venv/bin/python', '-m', 'pytest', '-q', '-p', 'no:cacheprovider', '-x'], cwd=wt, capture_output=True, text=True)
        res = dict(tests_pass=t.returncode == 0, alarms={}, judged_on=base[:7] + (' (HEAD)' if base == head else ' (differential: the commit the patch was written for)'))
        for c in a.checks:
            p, keys = run_check(c, wt)
            if base == head:
                bad = p.returncode != 0
                new = keys
            else:
                b = baselines[base][c]
                new = [k for k in keys if k not in b['keys']]
                bad = bool(new) or (p.returncode == 2 and b['exit'] != 2)
            if bad:
                res['alarms'][c] = dict(exit=p.returncode, new_keys=new[:8], lines=[l[:300] for l in p.stdout.splitlines() if l.strip().startswith('key=') and any(k in l for k in new)][:6],
                                        tail=(p.stdout + p.stderr)[-400:] if p.returncode == 2 else '')
        results[name] = res
        print(name, 'on', res['judged_on'], 'tests_pass=%s' % res['tests_pass'], 'ALARMS: %s' % sorted(res['alarms']) if res['alarms'] else 'silent on %d checks' % len(a.checks), flush=True)
    finally:
        drop(wt); drop(wt + '_base')
        json.dump(results, open(RES, 'w'), indent=1)
sys.exit(1 if any(r.get('alarms') or r.get('error') for k, r in results.items() if not k.startswith('_')) else 0)   # B1 changes an expansion the repo's tests pin, so tests_pass is only recorded
