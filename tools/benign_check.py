"""Behaviour-preserving changes of /repo (seeded/benign/*.diff) must NOT raise any alarm: each patch is applied to a scratch worktree, the repository's tests
must pass, and every selected quick check must exit 0 against the patched tree (KNOWN-FINDING lines are fine, VIOLATION lines and crashes are not).

A refactoring written against an older commit that no longer applies to HEAD (later `fix:` commits touched the same lines) is judged DIFFERENTIALLY on the
commit it was written for: the checks run against that base commit and against base + patch, and the patched tree may not produce any violation key (or
crash) that the base does not produce as well (the base lacks later fixes, so it legitimately violates some properties - identically with and without a
behaviour-preserving patch).
usage: python tools/benign_check.py [--only NAME ...] [--checks C01 ...] [--jobs N] [--skip-done]"""
import argparse, glob, json, os, re, shutil, subprocess, sys
VERIF = os.path.dirname(os.path.dirname(os.path.abspath(__file__)))
ALL = ['C%02d' % i for i in range(1, 21)]
ap = argparse.ArgumentParser(); ap.add_argument('--only', nargs='*'); ap.add_argument('--checks', nargs='*', default=ALL); ap.add_argument('--jobs', type=int, default=1); ap.add_argument('--skip-done', action='store_true'); a = ap.parse_args()
RES = os.path.join(VERIF, 'seeded', 'benign', 'result.json')
results = json.load(open(RES)) if os.path.exists(RES) else {}
baselines = results.setdefault('_baselines', {})        # {commit: {check: [keys]}}: what the checks of this /verif say about an older commit of /repo


def git(*args, cwd='/repo', check=False):
    return subprocess.run(['git', '-C', cwd] + list(args), capture_output=True, text=True, check=check)


def base_commit(diff):
    """the newest commit of /repo whose bronzebeard/asm.py (or dfu.py) is the pre-image the patch was written against"""
    text = open(diff).read()
    want = re.findall(r'^diff --git a/(\S+) b/\S+\nindex ([0-9a-f]+)\.\.', text, re.M)
    for c in git('log', '--format=%H').stdout.split():
        if all(git('rev-parse', '%s:%s' % (c, f)).stdout.startswith(blob) for f, blob in want):
            return c
    return None


def worktree(path, commit):
    git('worktree', 'remove', '--force', path)
    shutil.rmtree(path, ignore_errors=True)
    git('worktree', 'add', '--detach', path, commit, check=True)


def drop(path):
    git('worktree', 'remove', '--force', path)
    shutil.rmtree(path, ignore_errors=True); shutil.rmtree(path + '.out', ignore_errors=True)


def run_check(c, wt):
    env = dict(os.environ, VERIF_REPO=wt, VERIF_OUT=wt + '.out', VERIF_SEED='2', VERIF_WORKERS=str(max(4, 16 // a.jobs + 2)))
    p = subprocess.run(['/venv/bin/python', '-m', 'mc.run', c, '--tier', 'quick'], cwd=VERIF, env=env, capture_output=True, text=True)
    keys = sorted(set(re.findall(r'^\s+key=(\S+)', p.stdout, re.M)))
    return p, keys


verif_rev = subprocess.run(['git', '-C', VERIF, 'rev-parse', 'HEAD'], capture_output=True, text=True).stdout.strip()
import concurrent.futures, threading
LOCK = threading.Lock()
HEAD = git('rev-parse', 'HEAD').stdout.strip()


def baseline(base, checks, tag):
    """what do the checks of this /verif say about the base commit itself?  (cached per base commit and /verif revision; one thread at a time per base)"""
    with LOCK:
        bl = baselines.setdefault(base, {})
        if bl.get('_verif') != verif_rev:
            bl.clear(); bl['_verif'] = verif_rev
        lock = BASE_LOCKS.setdefault(base, threading.Lock())
    with lock:
        todo = [c for c in checks if c not in bl]
        if todo:
            wt = '/tmp/bn_base_' + base[:8]
            worktree(wt, base)
            try:
                for c in todo:
                    p, keys = run_check(c, wt)
                    bl[c] = dict(exit=p.returncode, keys=keys)
            finally:
                drop(wt)
            with LOCK:
                json.dump(results, open(RES, 'w'), indent=1)
    return bl


BASE_LOCKS = {}


def judge(diff):
    name = os.path.basename(diff)[:-5]
    wt = '/tmp/bn_' + name
    base = HEAD if git('apply', '--check', diff).returncode == 0 else base_commit(diff)
    if base is None:
        return name, dict(error='patch applies neither to HEAD nor to any commit of /repo')
    try:
        bl = baseline(base, a.checks, name) if base != HEAD else None
        worktree(wt, base)
        ap_ = git('apply', diff, cwd=wt)
        if ap_.returncode:
            return name, dict(error='apply: ' + ap_.stderr[-200:])
        t = subprocess.run(['/venv/bin/python', '-m', 'pytest', '-q', '-p', 'no:cacheprovider', '-x'], cwd=wt, capture_output=True, text=True)
        res = dict(tests_pass=t.returncode == 0, alarms={}, judged_on=base[:7] + (' (HEAD)' if base == HEAD else ' (differential: the commit the patch was written for)'))
        touched = set(re.findall(r'^diff --git a/(\S+)', open(diff).read(), re.M))
        # a patch that only touches dfu.py cannot influence the assembler checks, one that does not touch it cannot influence C18 / C19 (the two modules do not import each other)
        if touched <= {'bronzebeard/dfu.py'}:
            relevant = [c for c in a.checks if c in ('C18', 'C19')]
        elif 'bronzebeard/dfu.py' not in touched:
            relevant = [c for c in a.checks if c not in ('C18', 'C19')]
        else:
            relevant = list(a.checks)
        res['checks_run'] = relevant
        for c in relevant:
            p, keys = run_check(c, wt)
            if base == HEAD:
                bad = p.returncode != 0
                new = keys
            else:
                b = bl[c]
                new = [k for k in keys if k not in b['keys']]
                bad = bool(new) or (p.returncode == 2 and b['exit'] != 2)
            if bad:
                res['alarms'][c] = dict(exit=p.returncode, new_keys=new[:8], lines=[l[:300] for l in p.stdout.splitlines() if l.strip().startswith('key=') and any(k in l for k in new)][:6],
                                        tail=(p.stdout + p.stderr)[-400:] if p.returncode == 2 else '')
        print(name, 'on', res['judged_on'], 'tests_pass=%s' % res['tests_pass'], 'ALARMS: %s' % sorted(res['alarms']) if res['alarms'] else 'silent on %d checks' % len(relevant), flush=True)
        return name, res
    finally:
        drop(wt)


todo = [d for d in sorted(glob.glob(os.path.join(VERIF, 'seeded', 'benign', '*.diff')))
        if (not a.only or os.path.basename(d)[:-5] in a.only) and not (a.skip_done and os.path.basename(d)[:-5] in results and not results[os.path.basename(d)[:-5]].get('error'))]
with concurrent.futures.ThreadPoolExecutor(max_workers=a.jobs) as ex:
    for name, res in ex.map(judge, todo):
        with LOCK:
            results[name] = res
            json.dump(results, open(RES, 'w'), indent=1)
sys.exit(1 if any(r.get('alarms') or r.get('error') for k, r in results.items() if not k.startswith('_')) else 0)   # B1 changes an expansion the repo's tests pin, so tests_pass is only recorded
