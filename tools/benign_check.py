"""Behaviour-preserving changes of /repo (seeded/benign/*.diff) must NOT raise any alarm: each patch is applied to a scratch worktree, the repository's tests
must pass, and every selected quick check must exit 0 against the patched tree (KNOWN-FINDING lines are fine, VIOLATION lines and crashes are not).
usage: python tools/benign_check.py [--only NAME ...] [--checks C01 ...]"""
import argparse, glob, json, os, shutil, subprocess, sys
VERIF = os.path.dirname(os.path.dirname(os.path.abspath(__file__)))
ALL = ['C%02d' % i for i in range(1, 21)]
ap = argparse.ArgumentParser(); ap.add_argument('--only', nargs='*'); ap.add_argument('--checks', nargs='*', default=ALL); a = ap.parse_args()
results = json.load(open(os.path.join(VERIF, 'seeded', 'benign', 'result.json'))) if os.path.exists(os.path.join(VERIF, 'seeded', 'benign', 'result.json')) else {}
for diff in sorted(glob.glob(os.path.join(VERIF, 'seeded', 'benign', '*.diff'))):
    name = os.path.basename(diff)[:-5]
    if a.only and name not in a.only:
        continue
    wt = '/tmp/bn_' + name
    subprocess.run(['git', '-C', '/repo', 'worktree', 'remove', '--force', wt], capture_output=True)
    shutil.rmtree(wt, ignore_errors=True)
    subprocess.run(['git', '-C', '/repo', 'worktree', 'add', '--detach', wt, 'HEAD'], capture_output=True, check=True)
    try:
        ap_ = subprocess.run(['git', '-C', wt, 'apply', diff], capture_output=True, text=True)
        if ap_.returncode:
            results[name] = dict(error='apply: ' + ap_.stderr[-200:]); continue
        t = subprocess.run(['/venv/bin/python', '-m', 'pytest', '-q', '-p', 'no:cacheprovider', '-x'], cwd=wt, capture_output=True, text=True)
        res = dict(tests_pass=t.returncode == 0, alarms={})
        env = dict(os.environ, VERIF_REPO=wt, VERIF_OUT=wt + '.out', VERIF_SEED='2')
        for c in a.checks:
            p = subprocess.run(['/venv/bin/python', '-m', 'mc.run', c, '--tier', 'quick'], cwd=VERIF, env=env, capture_output=True, text=True)
            if p.returncode != 0:
                res['alarms'][c] = dict(exit=p.returncode, lines=[l[:300] for l in p.stdout.splitlines() if l.startswith('VIOLATION') or l.strip().startswith('key=')][:6], tail=(p.stdout + p.stderr)[-400:] if p.returncode == 2 else '')
        results[name] = res
        print(name, 'tests_pass=%s' % res['tests_pass'], 'ALARMS: %s' % sorted(res['alarms']) if res['alarms'] else 'silent on %d checks' % len(a.checks), flush=True)
    finally:
        subprocess.run(['git', '-C', '/repo', 'worktree', 'remove', '--force', wt], capture_output=True)
        shutil.rmtree(wt, ignore_errors=True); shutil.rmtree(wt + '.out', ignore_errors=True)
json.dump(results, open(os.path.join(VERIF, 'seeded', 'benign', 'result.json'), 'w'), indent=1)
sys.exit(1 if any(r.get('alarms') or r.get('error') for r in results.values()) else 0)   # B1 changes an expansion the repo's tests pin, so tests_pass is only recorded
