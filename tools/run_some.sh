#!/bin/bash
# usage: tools/run_some.sh <tier> C03 C08 ...   - like run_all.sh for a sub-set of the checks
cd "$(dirname "$0")/.."
tier=$1; shift
rc=0
for c in "$@"; do
  out=$(timeout 7200 /venv/bin/python -m mc.run $c --tier $tier 2>&1); s=$?
  echo "$out" | grep -E "^(VIOLATION|KNOWN-FINDING)" | cut -c1-160
  echo "$out" | tail -1 | sed "s/^/[exit $s] /"
  [ $s -ne 0 ] && rc=1
done
exit $rc
