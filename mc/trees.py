"""Generated include trees on disk (C14 C15 C17): specification, writer, textual splice, in-process CLI runner."""
import contextlib
import io
import os
import shutil
import sys

DIRS = ['.', 'sub', '..', 'inc']                 # where the included file lives relative to the includer ('inc' = a -i directory; 'self', used by one family only = the main file's directory given as -i)
POSITIONS = ['first', 'middle', 'last']
STYLES = ['plain', 'squote', 'dquote', 'comment']


def node(name, where='.', position='middle', style='plain', children=(), body=None):
    return dict(name=name, where=where, position=position, style=style, children=list(children), body=body)


def default_body(name, ident):
    """pre / post lines of a file: a label, an instruction, a constant and a data word, all unique to the file"""
    tag = name.replace('.', '_')
    pre = ['%s_a:' % tag, 'addi x8, x8, %d' % ident]
    post = ['%s_K = %d' % (tag, 100 + ident), 'dw %s_K' % tag, 'beq x8, x0, %s_a' % tag]
    return pre, post


def include_line(child):
    rel = child['name'] if child['where'] in ('.', 'inc', 'self') else child['where'] + '/' + child['name']
    st = child['style']
    if st == 'squote':
        return "include '%s'" % rel
    if st == 'dquote':
        return 'include "%s"' % rel
    if st == 'comment':
        return 'include %s  # pulled in here' % rel
    return 'include ' + rel


def file_lines(n, idents):
    """-> list of lines of the file; include lines are ('include', child) tuples"""
    pre, post = n['body'] if n['body'] is not None else default_body(n['name'], idents[id(n)])
    lines = list(pre) + list(post)
    # children are inserted one after the other at their positions
    first = [('include', c) for c in n['children'] if c['position'] == 'first']
    middle = [('include', c) for c in n['children'] if c['position'] == 'middle']
    last = [('include', c) for c in n['children'] if c['position'] == 'last']
    return first + list(pre) + middle + list(post) + last


def number(root):
    idents, k = {}, [0]

    def rec(n):
        k[0] += 1
        idents[id(n)] = k[0]
        for c in n['children']:
            rec(c)
    rec(root)
    return idents


def spliced(root):
    """the program with the lines of every included file written in place of its include line"""
    idents = number(root)

    def rec(n):
        out = []
        for ln in file_lines(n, idents):
            if isinstance(ln, tuple):
                out += rec(ln[1])
            else:
                out.append(ln)
        return out
    return '\n'.join(rec(root)) + '\n'


def write(root, base, decoy_dirs=(), shadow_ancestors=False):
    """materialise the tree under `base`: main file in base/src/..., include dir base/inc; -> (main path, include dir,
    {abs path: (node, [lines as written])}).  Every file name also gets a decoy in each of decoy_dirs."""
    idents = number(root)
    src = os.path.join(base, 'src', 'proj')        # leaves room for '..'
    inc = os.path.join(base, 'inc')
    files = {}

    shadows = []

    def place(n, directory, ancestors=()):
        os.makedirs(directory, exist_ok=True)
        path = os.path.join(directory, n['name'])
        if shadow_ancestors:
            # a same-named decoy in every directory further up the include chain: those are NOT places the documentation lets an include resolve to
            for a in ancestors[:-1]:
                if a not in (directory, inc):
                    shadows.append(os.path.join(a, n['name']))
        lines = []
        for ln in file_lines(n, idents):
            if isinstance(ln, tuple):
                c = ln[1]
                lines.append(include_line(c))
                # 'inc' = the -i directory; 'self' = the directory of the main file, which the driver then ALSO passes as a -i directory (written as a plain name)
                cdir = inc if c['where'] == 'inc' else (src if c['where'] == 'self' else os.path.normpath(os.path.join(directory, c['where'])))
                place(c, cdir, tuple(ancestors) + (directory,))
            else:
                lines.append(ln)
        with open(path, 'w') as f:
            f.write('\n'.join(lines) + '\n')
        files[path] = (n, lines)
        for d in decoy_dirs:
            for rel in {n['name'], os.path.join('sub', n['name'])}:
                p = os.path.join(d, rel)
                os.makedirs(os.path.dirname(p), exist_ok=True)
                with open(p, 'w') as f:
                    f.write('error decoy file %s from the working directory was used\n' % rel)
    os.makedirs(inc, exist_ok=True)
    place(root, src)
    for p in shadows:
        if p not in files and not os.path.exists(p):
            with open(p, 'w') as f:
                f.write('error decoy %s from a directory further up the include chain was used\n' % os.path.basename(p))
    return os.path.join(src, root['name']), inc, files


def fresh_dir(path):
    shutil.rmtree(path, ignore_errors=True)
    os.makedirs(path)
    return path


@contextlib.contextmanager
def cwd(path, gone=False):
    """run the body with `path` as working directory; gone=True removes the (empty) directory after entering it, so that
    the process sits in a working directory that no longer exists (os.getcwd() raises there)"""
    old = os.getcwd()
    if gone:
        os.makedirs(path, exist_ok=True)
    os.chdir(path)
    if gone:
        os.rmdir(path)
    try:
        yield
    finally:
        os.chdir(old)


def run_cli(asm, argv, workdir):
    """asm.cli_main() in-process with argv / cwd / stdout / stderr owned by the driver -> (exit status, stdout, stderr)"""
    out, err = io.StringIO(), io.StringIO()
    old_argv = sys.argv
    sys.argv = ['bronzebeard'] + list(argv)
    status = 0
    try:
        with cwd(workdir), contextlib.redirect_stdout(out), contextlib.redirect_stderr(err):
            try:
                asm.cli_main()
            except SystemExit as e:
                if e.code is None:
                    status = 0
                elif isinstance(e.code, int):
                    status = e.code
                else:
                    err.write(str(e.code) + '\n')       # what the interpreter does with a non-int exit code
                    status = 1
    finally:
        sys.argv = old_argv
    return status, out.getvalue(), err.getvalue()
