"""Explorer kernel: worker pool, per-task accumulators, evidence / replay writers, known-findings matcher.

Every property module enumerates *cases* (operand tuples, programs, histories, schedules) and hands each to a
driver `fn(case) -> None` that executes the real code in /repo and records violations on a Ctx.  The kernel only
distributes deterministic slices of the enumeration over worker processes, merges the counters in slice order and
turns the merged result into the evidence file, replay files and the exit status the MANIFEST contract asks for.
"""
import collections
import fnmatch
import hashlib
import json
import multiprocessing as mp
import os
import random
import shutil
import sys
import time
import traceback

VERIF = os.path.dirname(os.path.dirname(os.path.abspath(__file__)))
# the code under test: /repo's working tree.  VERIF_REPO exists only so that the seeded-change matrix (tools/seeded_matrix.py) can evaluate a
# patched scratch copy without touching /repo; every registered command runs without it, i.e. against /repo itself.
REPO = os.environ.get('VERIF_REPO', '/repo').rstrip('/')
# VERIF_OUT redirects evidence / replay files of matrix runs (tools/seeded_matrix.py); registered commands write to /verif
OUT = os.environ.get('VERIF_OUT', VERIF)
WORKERS = int(os.environ.get('VERIF_WORKERS', '16'))


def boot():
    """import the code under test from /repo's working tree and make sure that is what we got"""
    if REPO not in sys.path:
        sys.path.insert(0, REPO)
    import bronzebeard.asm as asm
    assert os.path.abspath(asm.__file__).startswith(REPO + '/'), asm.__file__
    return asm


class Ctx:
    """accumulator of one task (picklable via pack())"""
    MAX_PER_KEY = 3

    def __init__(self):
        self.n = collections.Counter()
        self.sets = collections.defaultdict(set)
        self.viol = []
        self.vcount = collections.Counter()
        self.samples = []

    def count(self, k, d=1):
        self.n[k] += d

    def seen(self, name, item):
        self.sets[name].add(item)

    def sample(self, obj, cap=4):
        if len(self.samples) < cap:
            self.samples.append(obj)

    def violation(self, key, what, driver, case, expected=None, observed=None):
        self.vcount[key] += 1
        if self.vcount[key] <= self.MAX_PER_KEY:
            self.viol.append(dict(key=key, what=what, driver=driver, case=case, expected=expected, observed=observed))

    def pack(self):
        return dict(n=dict(self.n), sets={k: sorted(v, key=repr) for k, v in self.sets.items()}, viol=self.viol,
                    vcount=dict(self.vcount), samples=self.samples)


class Merged:
    def __init__(self):
        self.n = collections.Counter()
        self.sets = collections.defaultdict(set)
        self.viol = collections.OrderedDict()   # key -> list of examples
        self.vcount = collections.Counter()
        self.samples = []
        self.tasks = 0

    def add(self, p):
        self.tasks += 1
        self.n.update(p['n'])
        for k, v in p['sets'].items():
            self.sets[k].update(v if not v or not isinstance(v[0], list) else map(tuple, v))
        for v in p['viol']:
            ex = self.viol.setdefault(v['key'], [])
            if len(ex) < Ctx.MAX_PER_KEY:
                ex.append(v)
        self.vcount.update(p['vcount'])
        self.samples.extend(p['samples'])


def _call(arg):
    fn, task = arg
    ctx = Ctx()
    try:
        fn(ctx, task)
    except BaseException:
        # an exception here is a defect of the harness (drivers classify every exception of the code under
        # test themselves); make it loud instead of silently dropping a slice
        return dict(crash=traceback.format_exc(), task=repr(task)[:500])
    return ctx.pack()


def explore(fn, tasks, merged=None, workers=None):
    """run fn(ctx, task) for every task on a fork pool; merge in task order (deterministic)"""
    merged = merged or Merged()
    tasks = list(tasks)
    workers = min(workers or WORKERS, max(1, len(tasks)))
    if workers == 1:
        results = map(_call, [(fn, t) for t in tasks])
        pool = None
    else:
        pool = mp.get_context('fork').Pool(workers)
        results = pool.imap(_call, [(fn, t) for t in tasks], chunksize=1)
    try:
        for r in results:
            if 'crash' in r:
                raise RuntimeError('harness crash in task %s\n%s' % (r['task'], r['crash']))
            merged.add(r)
    finally:
        if pool is not None:
            pool.terminate()
            pool.join()
    return merged


def chunks(seq, n):
    seq = list(seq)
    for i in range(0, len(seq), n):
        yield seq[i:i + n]


# ----------------------------------------------------------------------------------------------
# known findings
# ----------------------------------------------------------------------------------------------

def known_findings(prop):
    """-> {key: what} for `known:` lines of this property.  `fixed:` lines suppress nothing."""
    out = collections.OrderedDict()
    path = os.path.join(VERIF, 'KNOWN_FINDINGS.txt')
    if not os.path.exists(path):
        return out
    for line in open(path):
        line = line.strip()
        if not line.startswith('known:'):
            continue
        toks = line.split()
        d = dict(t.split('=', 1) for t in toks[1:3])
        if d.get('property') == prop:
            out[d['key']] = ' '.join(toks[3:])
    return out


# ----------------------------------------------------------------------------------------------
# finishing a run
# ----------------------------------------------------------------------------------------------

def jsonable(o):
    if isinstance(o, (bytes, bytearray)):
        return {'hex': bytes(o).hex()}
    if isinstance(o, dict):
        return {str(k): jsonable(v) for k, v in o.items()}
    if isinstance(o, (list, tuple, set, frozenset)):
        return [jsonable(v) for v in o]
    if isinstance(o, (int, float, str, bool)) or o is None:
        return o
    return repr(o)


def unjson(o):
    if isinstance(o, dict):
        if set(o) == {'hex'}:
            return bytes.fromhex(o['hex'])
        return {k: unjson(v) for k, v in o.items()}
    if isinstance(o, list):
        return [unjson(v) for v in o]
    return o


def finish(prop, tier, seed, t0, merged, coverage, assumptions, level='model_checking'):
    """write evidence + replays, print KNOWN-FINDING / VIOLATION lines, return the exit status"""
    known = known_findings(prop)
    rdir = os.path.join(OUT, 'replays', prop)
    new = 0
    hit = collections.OrderedDict()
    for key, examples in merged.viol.items():
        cnt = merged.vcount[key]
        pat = next((k for k in known if k == key or ('*' in k and fnmatch.fnmatchcase(key, k))), None)
        if pat is not None:
            hit.setdefault(pat, []).append((key, cnt, examples[0]))
            continue
        new += 1
        ex = examples[0]
        os.makedirs(rdir, exist_ok=True)
        h = hashlib.sha1((key + json.dumps(jsonable(ex['case']), sort_keys=True)).encode()).hexdigest()[:12]
        path = os.path.join(rdir, h + '.json')
        rec = dict(property=prop, key=key, what=ex['what'], driver=ex['driver'], case=jsonable(ex['case']),
                   expected=jsonable(ex['expected']), observed=jsonable(ex['observed']), count_this_run=cnt,
                   more_examples=[jsonable(e['case']) for e in examples[1:]],
                   replay_cmd='cd /verif && /venv/bin/python -m mc.run %s --replay %s' % (prop, path))
        with open(path, 'w') as f:
            json.dump(rec, f, indent=1)
        print('VIOLATION property=%s replay=%s' % (prop, path))
        print('  key=%s (%d case(s)): %s' % (key, cnt, ex['what']))
        print('  case=%s' % json.dumps(jsonable(ex['case']))[:400])
        print('  expected=%s observed=%s' % (json.dumps(jsonable(ex['expected']))[:300], json.dumps(jsonable(ex['observed']))[:300]))
    for pat, hits in hit.items():
        print('KNOWN-FINDING: property=%s %s [key=%s, %d case(s) this run under %d signature(s), e.g. %s]'
              % (prop, known[pat], pat, sum(h[1] for h in hits), len(hits), json.dumps(jsonable(hits[0][2]['case']))[:200]))
    for key in known:
        if key not in hit:
            print('note: listed finding not reproduced in this run (tier/bound may not reach it): property=%s key=%s' % (prop, key))
    rnd = random.Random(seed)
    samples = list(merged.samples)
    rnd.shuffle(samples)
    cov = dict(coverage)
    cov['samples'] = jsonable(samples[:6]) or ['(none)']
    cov.setdefault('counters', {k: v for k, v in sorted(merged.n.items())})
    cov['outcome_classes'] = {k: (sorted(map(str, v))[:40] if len(v) <= 400 else len(v)) for k, v in merged.sets.items()}
    cov['known_findings_hit'] = sorted(hit)
    ev = dict(property_id=prop, tier=tier, seed=seed, level=level, coverage=cov, assumptions=assumptions,
              wall_s=round(time.time() - t0, 2), violations=new)
    os.makedirs(os.path.join(OUT, 'evidence'), exist_ok=True)
    with open(os.path.join(OUT, 'evidence', prop + '.json'), 'w') as f:
        json.dump(ev, f, indent=1, sort_keys=True)
    print('%s %s: states=%s transitions=%s traces=%s violations=%d known=%d wall=%.1fs'
          % (prop, tier, cov.get('states'), cov.get('transitions'), cov.get('traces_validated_against_impl'), new,
             len(cov['known_findings_hit']), time.time() - t0))
    return 1 if new else 0


# ----------------------------------------------------------------------------------------------
# scratch directories (never /tmp: registered commands must not depend on it)
# ----------------------------------------------------------------------------------------------

def _main_pid():
    return os.getppid() if mp.current_process().name != 'MainProcess' else os.getpid()


def scratch(tag=''):
    """a private scratch directory of this (worker) process, removed by the main process at the end of the run"""
    d = os.path.join(VERIF, '.scratch', '%d_%d%s' % (_main_pid(), os.getpid(), tag), 'l1', 'l2', 'l3')
    os.makedirs(d, exist_ok=True)
    return d


def cleanup_scratch():
    d = os.path.join(VERIF, '.scratch')
    for name in os.listdir(d) if os.path.isdir(d) else []:
        if name.split('-')[0].split('_')[0] == str(os.getpid()):
            shutil.rmtree(os.path.join(d, name), ignore_errors=True)


def workdir():
    """per-worker scratch directory holding the small binary files include_bytes items refer to; becomes the cwd"""
    d = os.path.join(VERIF, '.scratch', '%d_%d_w' % (_main_pid(), os.getpid()))
    if not os.path.isdir(d):
        os.makedirs(d, exist_ok=True)
        for n in (1, 3, 5, 8):
            with open(os.path.join(d, 'blob%d.bin' % n), 'wb') as f:
                f.write(bytes((0xa0 + i) & 0xff for i in range(n)))
    os.chdir(d)
    return d


def errline(e):
    """last line of an exception's text (never fails on empty messages)"""
    ls = str(e).splitlines()
    return ls[-1] if ls else repr(e)
