"""Program alphabets, the small-scope history enumerator (S1), the span sweeps (S2) and the two-mode analysis
shared by the layout properties C03 C04 C08 C09 C12 C20 (DESIGN.md "The layout explorer")."""
import itertools

from mc import kernel
from mc.ref import layout as L
from mc.ref import rv32

# ------------------------------------------------------------------------------------------
# symbols: (name, builder(label) -> item, 'ref' | 'def' | None)
# ------------------------------------------------------------------------------------------


def I(mn, text=None, **f):
    return L.inst(mn, text, **f)


def sym(name, build, use=None):
    return (name, build, use)


CODE_C = [   # compressible with -c
    sym('addi8', lambda l: I('addi', rd=8, rs1=8, imm=1)),
    sym('lw', lambda l: I('lw', rd=9, rs1=8, imm=4)),
    sym('swsp', lambda l: I('sw', rs1=2, rs2=9, imm=0)),
    sym('add9', lambda l: I('add', rd=9, rs1=9, rs2=10)),
    sym('slli', lambda l: I('slli', rd=8, rs1=8, shamt=3)),
]
CODE_N = [   # never compressible
    sym('add567', lambda l: I('add', rd=5, rs1=6, rs2=7)),
    sym('addi89', lambda l: I('addi', rd=8, rs1=9, imm=1)),
    sym('c.addi', lambda l: L.cinst('c.addi', rd=9, imm=1)),
]
VAR = [
    sym('li1', lambda l: L.li(9, 1)),
    sym('liL', lambda l: L.li(9, 0x12345)),
    sym('li3000', lambda l: L.li(8, 0x3000)),
]
XFER = [
    sym('beq8', lambda l: I('beq', rs1=8, rs2=0, imm=('offset', l)), 'ref'),
    sym('bne56', lambda l: I('bne', rs1=5, rs2=6, imm=('offset', l)), 'ref'),
    sym('jal0', lambda l: I('jal', rd=0, imm=('offset', l)), 'ref'),
    sym('jal1', lambda l: I('jal', rd=1, imm=('offset', l)), 'ref'),
    sym('jal5', lambda l: I('jal', rd=5, imm=('offset', l)), 'ref'),
    sym('j', lambda l: I('jal', 'j ' + l, rd=0, imm=('offset', l)), 'ref'),
    sym('jalP', lambda l: I('jal', 'jal ' + l, rd=1, imm=('offset', l)), 'ref'),
    sym('beqz9', lambda l: I('beq', 'beqz x9, ' + l, rs1=9, rs2=0, imm=('offset', l)), 'ref'),
    sym('bgtu', lambda l: I('bltu', 'bgtu x5, x6, ' + l, rs1=6, rs2=5, imm=('offset', l)), 'ref'),
    sym('bgtz9', lambda l: I('blt', 'bgtz x9, ' + l, rs1=0, rs2=9, imm=('offset', l)), 'ref'),
    sym('blez8', lambda l: I('bge', 'blez x8, ' + l, rs1=0, rs2=8, imm=('offset', l)), 'ref'),
    sym('c.j', lambda l: L.cinst('c.j', imm=('offset', l)), 'ref'),
    sym('c.beqz', lambda l: L.cinst('c.beqz', rs1=8, imm=('offset', l)), 'ref'),
    # hand-written compressed transfers naming their label directly (like jal / beq do)
    sym('c.jB', lambda l: L.cinst('c.j', 'c.j ' + l, imm=('offset', l)), 'ref'),
    sym('c.jalB', lambda l: L.cinst('c.jal', 'c.jal ' + l, imm=('offset', l)), 'ref'),
    sym('c.beqzB', lambda l: L.cinst('c.beqz', 'c.beqz x8, ' + l, rs1=8, imm=('offset', l)), 'ref'),
    sym('c.bnezB', lambda l: L.cinst('c.bnez', 'c.bnez x9, ' + l, rs1=9, imm=('offset', l)), 'ref'),
    # 32-bit transfers with the modifier spelled out
    sym('beqOff', lambda l: I('beq', 'beq x8, x0, %%offset(%s)' % l, rs1=8, rs2=0, imm=('offset', l)), 'ref'),
    sym('jalOff', lambda l: I('jal', 'jal x1, %%offset(%s)' % l, rd=1, imm=('offset', l)), 'ref'),
    sym('call', lambda l: L.call(l), 'ref'),
    sym('tail', lambda l: L.call(l, tail=True), 'ref'),
]
B0, B1, B2 = 0, 0x08000000, 0x20000000 - 8
LABELARITH = [
    sym('addiL', lambda l: I('addi', rd=5, rs1=0, imm=('label', l)), 'ref'),
    sym('liLab', lambda l: L.li(5, ('label', l)), 'ref'),
    sym('liPos', lambda l: L.li(5, ('position', l, B1)), 'ref'),
    sym('liOff', lambda l: L.li(5, ('offset', l)), 'ref'),
    sym('luiHi', lambda l: I('lui', rd=5, imm=('hi', ('position', l, B1))), 'ref'),
    sym('addiLo', lambda l: I('addi', rd=5, rs1=5, imm=('lo', ('position', l, B1))), 'ref'),
    sym('dwL', lambda l: L.data('dw ' + l, ('<I', ('label', l))), 'ref'),
    sym('dwOff', lambda l: L.data('dw %%offset(%s)' % l, ('<i', ('offset', l))), 'ref'),
    sym('packPos', lambda l: L.data('pack <I %%position(%s, %d)' % (l, B1), ('<I', ('position', l, B1))), 'ref'),
    sym('packOff', lambda l: L.data('pack <h %%offset(%s)' % l, ('<h', ('offset', l))), 'ref'),
    # %position with the base written as an expression whose top-level operator binds weaker than '+'
    sym('liPosShl', lambda l: L.li(5, ('position', l, 1 << 27, '1 << 27')), 'ref'),
    sym('dwPosAnd', lambda l: L.data('dw %%position(%s, 0x08000fff & 0xfffff000)' % l, ('<I', ('position', l, 0x08000000))), 'ref'),
    sym('dwPosOr', lambda l: L.data('dw %%position(%s, 0x08000000 | 0x100)' % l, ('<I', ('position', l, 0x08000100))), 'ref'),
    sym('packPosShr', lambda l: L.data('pack <I %%position(%s, 0x10000000 >> 1)' % l, ('<I', ('position', l, 0x08000000))), 'ref'),
    sym('luiHiXor', lambda l: I('lui', rd=5, imm=('hi', ('position', l, 0x08000000, '0x08000001 ^ 1'))), 'ref'),
    sym('lwL', lambda l: I('lw', rd=8, rs1=8, imm=('label', l)), 'ref'),
    sym('addiOff', lambda l: I('addi', rd=8, rs1=8, imm=('offset', l)), 'ref'),
    # the destination register written through a constant alias (RD5 = t0, defined by the family that uses these symbols)
    sym('liOffAl', lambda l: dict(L.li(5, ('offset', l)), text='li RD5, %%offset(%s)' % l), 'ref'),
    sym('liPosAl', lambda l: dict(L.li(5, ('position', l, B1)), text='li RD5, %%position(%s, %d)' % (l, B1)), 'ref'),
    sym('liLabAl', lambda l: dict(L.li(5, ('label', l)), text='li RD5, %s' % l), 'ref'),
    sym('addiLoAl', lambda l: dict(I('addi', rd=5, rs1=5, imm=('lo', ('position', l, B1))), text='addi RD5, RD5, %%lo(%%position(%s, %d))' % (l, B1)), 'ref'),
]
ALIAS_DEF = L.const('RD5', 't0')
# expressions that DECREASE in a label: their value grows when -c (or a shrinking pseudo-instruction) moves the label down
NEGARITH = [
    sym('liNeg', lambda l: L.li(10, ('rsub', 2051, ('label', l))), 'ref'),
    sym('liNeg9', lambda l: L.li(10, ('rsub', 2057, ('label', l))), 'ref'),
    sym('liLow', lambda l: L.li(10, ('add', ('label', l), -2052)), 'ref'),        # increasing in the label, just above the negative 12-bit edge
    sym('addiNeg', lambda l: I('addi', rd=8, rs1=8, imm=('rsub', 2051, ('label', l))), 'ref'),
    sym('addiNeg9', lambda l: I('addi', rd=5, rs1=6, imm=('rsub', 2057, ('label', l))), 'ref'),
    sym('lwNeg', lambda l: I('lw', rd=8, rs1=8, imm=('rsub', 130, ('label', l))), 'ref'),
    sym('dbNeg', lambda l: L.data('db 259 - ' + l, ('<B', ('rsub', 259, ('label', l)))), 'ref'),
]
DATA = [
    sym('db', lambda l: L.data('db 1', b'\x01')),
    sym('dh', lambda l: L.data('dh 2', b'\x02\x00')),
    sym('dw', lambda l: L.data('dw 3', b'\x03\x00\x00\x00')),
    sym('bytes3', lambda l: L.data('bytes 1 2 3', b'\x01\x02\x03')),
    sym('str', lambda l: L.data('string abc', b'abc')),
]
# every data item kind with a size that must agree between the first (pessimistic) pass and the emitted bytes
DATA_ALL = DATA + [
    sym('strU', lambda l: L.data('string h\u00e9\u20ac\u65e5', 'h\u00e9\u20ac\u65e5'.encode('utf-8'))),            # non-ASCII: 1 + 2 + 3 + 3 bytes
    sym('strE', lambda l: L.data('string a\\nb\\x41', b'a\nbA')),                                                 # escapes shrink the text
    sym('str2', lambda l: L.data('string   two  words # kept', b'  two  words # kept')),
    sym('bytes1', lambda l: L.data('bytes 7', b'\x07')),
    sym('shorts1', lambda l: L.data('shorts 0x1234', b'\x34\x12')),
    sym('ints1', lambda l: L.data('ints 1 -2', b'\x01\0\0\0\xfe\xff\xff\xff')),
    sym('longs1', lambda l: L.data('longs 1', b'\x01\0\0\0')),
    sym('longs3', lambda l: L.data('longs 1 2 3', b'\x01\0\0\0\x02\0\0\0\x03\0\0\0')),
    sym('longlongs1', lambda l: L.data('longlongs 5', b'\x05' + b'\0' * 7)),
    sym('dd', lambda l: L.data('dd 0x1122334455667788', bytes.fromhex('8877665544332211'))),
    sym('dbneg', lambda l: L.data('db -1', b'\xff')),
    sym('packB', lambda l: L.data('pack <B 7', b'\x07')),
    sym('packh', lambda l: L.data('pack >h -2', b'\xff\xfe')),
    sym('packI', lambda l: L.data('pack <I 0x11223344', bytes.fromhex('44332211'))),
    sym('packl', lambda l: L.data('pack <l -1', b'\xff' * 4)),
    sym('packL', lambda l: L.data('pack >L 1', b'\0\0\0\x01')),
    sym('packq', lambda l: L.data('pack <q -1', b'\xff' * 8)),
    sym('packQ', lambda l: L.data('pack >Q 1', b'\0' * 7 + b'\x01')),
    sym('incb', lambda l: L.data('include_bytes blob3.bin', bytes([0xa0, 0xa1, 0xa2]))),
    sym('incb8', lambda l: L.data('include_bytes blob8.bin', bytes(0xa0 + i for i in range(8)))),
]
ALIGN = [sym('al2', lambda l: L.align(2)), sym('al4', lambda l: L.align(4)), sym('al8', lambda l: L.align(8))]
DEF = sym('def', lambda l: L.label(l), 'def')


def pick(table, *names):
    d = {s[0]: s for s in table}
    return [d[n] for n in names]


# ------------------------------------------------------------------------------------------
# S1: all closed programs of <= depth lines (history enumeration, canonical under label renaming)
# ------------------------------------------------------------------------------------------

def instantiate(symbols, labels):
    out = []
    for name, build, use in symbols:
        if use is None:
            out.append((name, None, None, build(None)))
        else:
            for l in labels:
                out.append(('%s.%s' % (name, l), use, l, build(l)))
    return out


def closed_programs(alpha, depth, labels, prefix=()):
    """yield (names, items) for every sequence over `alpha` of length <= depth that starts with `prefix`, is closed
    (every referenced label defined exactly once, no label defined twice) and canonical (labels first mentioned
    in the order of `labels`).  The number of sequences skipped as open / non-canonical is returned via the
    generator's stats dict."""
    stats = closed_programs.stats
    order = {l: i for i, l in enumerate(labels)}

    def rec(seq, defs, refs_, mentioned):
        n = len(seq)
        if n >= len(prefix):
            stats['histories'] += 1
            if refs_ <= defs:
                if n:
                    yield [s[0] for s in seq], [s[3] for s in seq]
            else:
                stats['open'] += 1
        if n == depth:
            return
        for s in alpha:
            if n < len(prefix) and s[0] != prefix[n]:
                continue
            name, use, l, item = s
            if use:
                if l not in mentioned and order[l] != len(mentioned):
                    continue            # non-canonical label order
                if use == 'def' and l in defs:
                    continue            # duplicate definition: outside this explorer's alphabet
            m2 = mentioned if (not use or l in mentioned) else mentioned + [l]
            seq.append(s)
            yield from rec(seq, defs | {l} if use == 'def' else defs, refs_ | {l} if use == 'ref' else refs_, m2)
            seq.pop()
    yield from rec([], frozenset(), frozenset(), [])


closed_programs.stats = {'histories': 0, 'open': 0}


def s1_tasks(alpha, depth, plen=2):
    """split the history tree on its first `plen` symbols (plus the shorter histories in one extra task)"""
    names = [s[0] for s in alpha]
    tasks = [dict(prefix=list(p), depth=depth) for p in itertools.product(names, repeat=min(plen, depth))]
    tasks.append(dict(prefix=[], depth=min(plen, depth) - 1))
    return tasks


# ------------------------------------------------------------------------------------------
# two-mode analysis
# ------------------------------------------------------------------------------------------

class Result:
    __slots__ = ('status', 'out', 'labels', 'consts', 'exc', 'walk', 'etype')


def assemble(asm, items_or_text, compress, **kw):
    r = Result()
    r.labels, r.consts, r.walk, r.exc, r.out, r.etype = {}, {}, None, None, None, None
    text = items_or_text if isinstance(items_or_text, str) else L.source(items_or_text)
    try:
        r.out = bytes(asm.assemble(text, compress=compress, labels=r.labels, constants=r.consts, **kw))
        r.status = 'ok'
    except asm.AssemblerError as e:
        r.status, r.exc, r.etype = 'refused', e, 'AssemblerError'
    except RecursionError:
        raise
    except Exception as e:
        r.status, r.exc, r.etype = 'raw', e, type(e).__name__
    return r


def analyze(asm, items, modes=(False, True)):
    res = {}
    for c in modes:
        r = assemble(asm, items, c)
        if r.status == 'ok':
            r.walk = L.walk(items, r.out, c)
        res[c] = r
    return res


def refusal_class(r):
    """coarse reason of a refusal, for vacuity statistics only (never part of a verdict)"""
    if r.status == 'raw':
        return 'raw:' + r.etype
    msg = r.exc.message if hasattr(r.exc, 'message') else str(r.exc)
    for pat in ('multiple of', 'muliple of', 'must be between', 'invalid reference', 'unknown variable', 'constraint failed', 'compressed register'):
        if pat in msg:
            return pat
    return msg[:30]


def head(it):
    return it['text'].split()[0].rstrip(':') if it['k'] != 'label' else 'label'


def spec_class(it):
    k = it['k']
    spec = None
    if k in ('inst', 'cinst'):
        spec = it['f'].get('imm')
    elif k == 'li':
        spec = it['spec']
    elif k in ('call', 'tail'):
        return 'label'
    elif k == 'data' and not isinstance(it['payload'], (bytes, bytearray)):
        spec = it['payload'][1]
    if spec is None or isinstance(spec, int):
        return 'literal'
    t = spec[0]
    if t == 'rsub':
        return 'rsub-' + (spec[2][0] if not isinstance(spec[2], int) else 'literal')
    if t == 'diff':
        return 'diff-label'
    while t in ('hi', 'lo', 'add'):
        t = t + '-' + (spec[1][0] if not isinstance(spec[1], int) else 'literal')
        spec = spec[1]
        if isinstance(spec, int):
            break
        if spec[0] not in ('hi', 'lo', 'add'):
            break
        t = spec[0]
    return t


def moved(items, res):
    """did any label end below its pessimistic first-pass position (the situation the suite never builds)?"""
    pess, pos = {}, 0
    for it in items:
        k = it['k']
        if k == 'label':
            pess[it['name']] = pos
        elif k in ('inst',):
            pos += 4
        elif k == 'cinst':
            pos += 2
        elif k in ('li', 'call', 'tail'):
            pos += 8
        elif k == 'data':
            pos += L.data_size(it)
        elif k == 'align':
            pos += it['n']
    for r in res.values():
        if r.status == 'ok' and r.walk and r.walk.places:
            if any(r.walk.labels.get(n, p) != p for n, p in pess.items()):
                return True
    return False


# ------------------------------------------------------------------------------------------
# S2: span sweeps
# ------------------------------------------------------------------------------------------

WINDOWS_QUICK = [range(236, 268), range(2030, 2064), range(4080, 4112)]
MIB = 1 << 20
WINDOWS_FAR = [range(MIB - 24, MIB + 25), range(MIB + 0x7e8, MIB + 0x819), [2 * MIB - 2, 2 * MIB, 2 * MIB + 2, 3 * MIB + 0x7fe]]


def span_program(referrer, direction, between, gapn, tail_item=None, pre=()):
    """forward:  pre ; referrer(A) ; between... ; gap ; align 2 ; A: ; tail
       backward: pre ; A: ; tail ; gap ; between... ; align 2 ; referrer(A)"""
    tail_item = tail_item or I('add', rd=5, rs1=6, rs2=7)
    g = [L.gap(gapn)] if gapn else []
    if direction == 'fwd':
        return list(pre) + [referrer('A')] + list(between) + g + [L.align(2), L.label('A'), tail_item]
    return list(pre) + [L.label('A'), tail_item] + g + list(between) + [L.align(2), referrer('A')]


# ------------------------------------------------------------------------------------------
# operand-edge instruction space (C04 C12 C20): the 18 base mnemonics that have an RVC counterpart, registers on
# both sides of every register-class boundary, literal immediates on both sides of every RVC operand-set edge
# ------------------------------------------------------------------------------------------

REG9 = [0, 1, 2, 7, 8, 9, 15, 16, 31]


def edge_instructions(tier='quick'):
    regs = REG9 if tier == 'quick' else [0, 1, 2, 3, 7, 8, 9, 12, 15, 16, 31]
    out = []
    addi_imms = sorted(set(range(-40, 41)) | set(range(-544, 545, 16)) | set(range(-8, 1040, 4)) | {-2048, 2047, 1023, 1021, 511, -513, 497, 495, -511})
    for rd in regs:
        for rs1 in regs:
            for imm in addi_imms:
                out.append(I('addi', rd=rd, rs1=rs1, imm=imm))
            for imm in sorted(set(range(-8, 270)) | {-2048, 2047}):
                out.append(I('lw', rd=rd, rs1=rs1, imm=imm))
                out.append(I('sw', rs1=rd, rs2=rs1, imm=imm))
            for imm in list(range(-40, 41)) + [-2048, 2047]:
                out.append(I('andi', rd=rd, rs1=rs1, imm=imm))
            for sh in range(32):
                for mn in ('slli', 'srli', 'srai'):
                    out.append(I(mn, rd=rd, rs1=rs1, shamt=sh))
            for imm in (-4, -2, 0, 2, 4, 2046, -2048):
                out.append(I('jalr', rd=rd, rs1=rs1, imm=imm))
            for imm in sorted(set(range(-262, 262, 2)) | {-4096, 4094}):
                out.append(I('beq', rs1=rd, rs2=rs1, imm=imm))
                out.append(I('bne', rs1=rd, rs2=rs1, imm=imm))
            for rs2 in regs:
                for mn in ('add', 'sub', 'xor', 'or', 'and'):
                    out.append(I(mn, rd=rd, rs1=rs1, rs2=rs2))
        for imm in sorted(set(range(-40, 41)) | set(range(0xfffd8, 0x100000)) | {0x7ffff, -0x80000, 0x80000, 32, 0x1f, 0x20}):
            out.append(I('lui', rd=rd, imm=imm if imm < 0x80000 else imm, text='lui x%d, %d' % (rd, imm)))
        for imm in sorted(set(range(-2060, 2060, 2)) | {-(1 << 20), (1 << 20) - 2}):
            out.append(I('jal', rd=rd, imm=imm))
    out.append(I('ebreak'))
    out.append(I('ecall'))
    return out
