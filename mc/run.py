"""python -m mc.run <ID> [--tier quick|thorough] [--replay <file>]   (cwd = /verif)"""
import argparse
import importlib
import json
import os
import sys
import time


def main():
    ap = argparse.ArgumentParser()
    ap.add_argument('prop')
    ap.add_argument('--tier', default=os.environ.get('VERIF_TIER') or 'quick', choices=['quick', 'thorough'])
    ap.add_argument('--replay')
    a = ap.parse_args()
    # a fixed hash seed for the checks themselves (C16 varies it on purpose in sub-processes)
    if os.environ.get('PYTHONHASHSEED') != '0':
        env = dict(os.environ, PYTHONHASHSEED='0')
        os.execve(sys.executable, [sys.executable, '-m', 'mc.run'] + sys.argv[1:], env)
    here = os.path.dirname(os.path.dirname(os.path.abspath(__file__)))
    os.chdir(here)
    if here not in sys.path:
        sys.path.insert(0, here)
    from mc import kernel
    kernel.boot()
    prop = a.prop.upper()
    mod = importlib.import_module('mc.props.' + prop.lower())
    try:
        seed = int(os.environ.get('VERIF_SEED', '0') or 0)
    except ValueError:
        seed = 0
    if a.replay:
        rec = json.load(open(a.replay))
        ctx = kernel.Ctx()
        mod.DRIVERS[rec['driver']](ctx, kernel.unjson(rec['case']))
        print('replay of %s: driver=%s' % (a.replay, rec['driver']))
        print('case     =', json.dumps(rec['case'])[:2000])
        if ctx.viol:
            for v in ctx.viol:
                print('STILL VIOLATES key=%s: %s' % (v['key'], v['what']))
                print('  expected =', json.dumps(kernel.jsonable(v['expected']))[:1000])
                print('  observed =', json.dumps(kernel.jsonable(v['observed']))[:1000])
            sys.exit(1)
        print('no violation on the current tree')
        sys.exit(0)
    t0 = time.time()
    try:
        rc = mod.run(a.tier, seed, t0)
    except BaseException:
        # a crash of the harness itself is neither "held" (0) nor "violation" (1)
        import traceback
        traceback.print_exc()
        rc = 2
    finally:
        kernel.cleanup_scratch()
    sys.exit(rc)


if __name__ == '__main__':
    main()
