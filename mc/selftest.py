"""Anchors the reference models (DESIGN.md 2.5).  Run by MANIFEST.setup_cmd and by thorough runs.

(a) golden encodings known independently of the repository,
(b) llvm-mc-14 (riscv32) in both directions: disassembly of every halfword and of a structured set of 32-bit
    words must agree with decode16/decode32 on valid-vs-invalid and on the mnemonic; assembling the LLVM-syntax
    text the reference renders for each decoded word must give the word back (pins every field),
(c) decode(encode_ref(t)) == t round trips, ISS spot checks.
LLVM is an anchor of the oracle only, never part of a verdict.  Exit status 0 = reference model consistent.
"""
import shutil
import subprocess
import sys
import time

from mc.ref import rv32
from mc.ref.rv32 import decode16, decode32, encode32, expand16, sext

GOLD32 = {
    0x00000013: ('addi', dict(rd=0, rs1=0, imm=0)),
    0x00008067: ('jalr', dict(rd=0, rs1=1, imm=0)),
    0x0ff0000f: ('fence', dict(fm=0, pred=15, succ=15, rd=0, rs1=0)),
    0x0000100f: ('fence.i', dict(rd=0, rs1=0, imm=0)),
    0x00000073: ('ecall', {}),
    0x00100073: ('ebreak', {}),
    0xfff00093: ('addi', dict(rd=1, rs1=0, imm=-1)),
    0x800000b7: ('lui', dict(rd=1, imm=-524288)),
    0x00001097: ('auipc', dict(rd=1, imm=1)),
    0xffdff06f: ('jal', dict(rd=0, imm=-4)),
    0x0000006f: ('jal', dict(rd=0, imm=0)),
    0x7ffff0ef: ('jal', dict(rd=1, imm=0xffffe)),
    0x00208463: ('beq', dict(rs1=1, rs2=2, imm=8)),
    0xfe209ee3: ('bne', dict(rs1=1, rs2=2, imm=-4)),
    0x00112623: ('sw', dict(rs1=2, rs2=1, imm=12)),
    0x00c12083: ('lw', dict(rd=1, rs1=2, imm=12)),
    0x40215093: ('srai', dict(rd=1, rs1=2, shamt=2)),
    0x00211093: ('slli', dict(rd=1, rs1=2, shamt=2)),
    0x403100b3: ('sub', dict(rd=1, rs1=2, rs2=3)),
    0x023100b3: ('mul', dict(rd=1, rs1=2, rs2=3)),
    0x023170b3: ('remu', dict(rd=1, rs1=2, rs2=3)),
    0x100120af: ('lr.w', dict(rd=1, rs1=2, aq=0, rl=0)),
    0x1c3120af: ('sc.w', dict(rd=1, rs1=2, rs2=3, aq=1, rl=0)),
    0x063120af: ('amoadd.w', dict(rd=1, rs1=2, rs2=3, aq=1, rl=1)),
    0xc00020f3: ('csrrs', dict(rd=1, rs1=0, csr=0xc00)),
    0x3002d0f3: ('csrrwi', dict(rd=1, uimm=5, csr=0x300)),
    0x30200073: None,   # mret: privileged, not in the accepted set
}
GOLD16 = {
    0x0001: ('c.nop', {}),
    0x8082: ('c.jr', dict(rs1=1)),
    0x9002: ('c.ebreak', {}),
    0x1141: ('c.addi', dict(rd=2, imm=-16)),
    0x7179: ('c.addi16sp', dict(imm=-48)),
    0xc606: ('c.swsp', dict(rs2=1, imm=12)),
    0x40b2: ('c.lwsp', dict(rd=1, imm=12)),
    0x4501: ('c.li', dict(rd=10, imm=0)),
    0x0048: ('c.addi4spn', dict(rd=10, imm=4)),
    0x4188: ('c.lw', dict(rd=10, rs1=11, imm=0)),
    0xc188: ('c.sw', dict(rs1=11, rs2=10, imm=0)),
    0xa001: ('c.j', dict(imm=0)),
    0x2001: ('c.jal', dict(imm=0)),
    0xc101: ('c.beqz', dict(rs1=10, imm=0)),
    0x852e: ('c.mv', dict(rd=10, rs2=11)),
    0x952e: ('c.add', dict(rd=10, rs2=11)),
    0x9082: ('c.jalr', dict(rs1=1)),
    0x8d0d: ('c.sub', dict(rd=10, rs2=11)),
    0x6505: ('c.lui', dict(rd=10, imm=1)),
    0x0506: ('c.slli', dict(rd=10, imm=1)),
    0x8105: ('c.srli', dict(rd=10, imm=1)),
    0x0000: (rv32.ILLEGAL, {}),
}

ABI = ['zero', 'ra', 'sp', 'gp', 'tp', 't0', 't1', 't2', 's0', 's1'] + ['a%d' % i for i in range(8)] + \
      ['s%d' % i for i in range(2, 12)] + ['t%d' % i for i in range(3, 7)]


def llvm():
    return shutil.which('llvm-mc-14') or shutil.which('llvm-mc')


def llvm_text32(mn, f):
    x = lambda r: 'x%d' % r
    if mn in ('lb', 'lh', 'lw', 'lbu', 'lhu', 'jalr'):
        return '%s %s, %d(%s)' % (mn, x(f['rd']), f['imm'], x(f['rs1']))
    if mn in ('sb', 'sh', 'sw'):
        return '%s %s, %d(%s)' % (mn, x(f['rs2']), f['imm'], x(f['rs1']))
    if mn in ('lui', 'auipc'):
        return '%s %s, %d' % (mn, x(f['rd']), f['imm'] & 0xfffff)
    if mn == 'fence':
        if f['fm'] or f['rd'] or f['rs1'] or not f['pred'] or not f['succ']:
            return None
        s = lambda v: ''.join(c for c, b in zip('iorw', (8, 4, 2, 1)) if v & b)
        return 'fence %s, %s' % (s(f['pred']), s(f['succ']))
    if mn == 'fence.i':
        return None if (f['rd'] or f['rs1'] or f['imm']) else 'fence.i'
    if mn.startswith('csr'):
        src = str(f['uimm']) if 'uimm' in f else x(f['rs1'])
        return '%s %s, %d, %s' % (mn, x(f['rd']), f['csr'], src)
    if mn == 'lr.w' or mn == 'sc.w' or mn.startswith('amo'):
        suf = {(0, 0): '', (1, 0): '.aq', (0, 1): '.rl', (1, 1): '.aqrl'}[(f['aq'], f['rl'])]
        if mn == 'lr.w':
            return 'lr.w%s %s, (%s)' % (suf, x(f['rd']), x(f['rs1']))
        return '%s%s %s, %s, (%s)' % (mn, suf, x(f['rd']), x(f['rs2']), x(f['rs1']))
    return rv32.text32(mn, f)


def llvm_text16(mn, f):
    x = lambda r: 'x%d' % r
    if mn == 'c.addi4spn':
        return 'c.addi4spn %s, sp, %d' % (x(f['rd']), f['imm'])
    if mn == 'c.addi16sp':
        return 'c.addi16sp sp, %d' % f['imm']
    if mn == 'c.lw':
        return 'c.lw %s, %d(%s)' % (x(f['rd']), f['imm'], x(f['rs1']))
    if mn == 'c.sw':
        return 'c.sw %s, %d(%s)' % (x(f['rs2']), f['imm'], x(f['rs1']))
    if mn == 'c.lwsp':
        return 'c.lwsp %s, %d(sp)' % (x(f['rd']), f['imm'])
    if mn == 'c.swsp':
        return 'c.swsp %s, %d(sp)' % (x(f['rs2']), f['imm'])
    if mn == 'c.lui':
        return 'c.lui %s, %d' % (x(f['rd']), f['imm'] & 0xfffff)
    return rv32.text16(mn, f)


def run_llvm(args, text):
    p = subprocess.run([llvm(), '-triple=riscv32', '-mattr=+c,+m,+a'] + args, input=text, capture_output=True, text=True)
    return p.stdout, p.stderr


def structured_words():
    """every opcode/funct combination x boundary and walking-bit values of the remaining fields"""
    ws = set(GOLD32)
    vals5 = [0, 1, 2, 8, 15, 16, 21, 31]
    ops = [0x37, 0x17, 0x6f, 0x67, 0x63, 0x03, 0x23, 0x13, 0x33, 0x0f, 0x73, 0x2f]
    top = [0, 1, 0x7ff, 0x800, 0xfff, 0x555, 0xaaa, 0x400, 0x020, 0x01f, 0x7e0] + [1 << k for k in range(12)]
    for op in ops:
        for f3 in range(8):
            for t in top:
                for rd in vals5:
                    for rs1 in (0, 1, 10, 31):
                        ws.add(op | rd << 7 | f3 << 12 | rs1 << 15 | t << 20)
    # all funct7 x funct3 for OP / OP-IMM / AMO with fixed registers
    for op in (0x33, 0x13, 0x2f):
        for f7 in range(128):
            for f3 in range(8):
                for rs2 in (0, 3, 31):
                    ws.add(op | 1 << 7 | f3 << 12 | 2 << 15 | rs2 << 20 | f7 << 25)
    # walking bits over whole words per major opcode
    for op in ops:
        for k in range(7, 32):
            ws.add(op | 1 << k)
            ws.add(op | (0xffffff80 & ~(1 << k)))
    return sorted(ws)


def main(verbose=True):
    t0 = time.time()
    fails = []
    n = 0
    for w, exp in GOLD32.items():
        n += 1
        if decode32(w) != exp:
            fails.append('gold32 %#010x: %r != %r' % (w, decode32(w), exp))
    for h, exp in GOLD16.items():
        n += 1
        if decode16(h) != exp:
            fails.append('gold16 %#06x: %r != %r' % (h, decode16(h), exp))
    # (c) round trips
    legal = 0
    for h in range(0x10000):
        d = decode16(h)
        if d is None or not d[0].startswith('c.'):
            continue
        legal += 1
        w = expand16(h)
        d32 = decode32(w)
        if d32 is None or (d32[0], d32[1]) != rv32.expand(*d):
            fails.append('expand16 %#06x -> %#010x does not decode back' % (h, w))
    words = structured_words()
    dec = 0
    for w in words:
        d = decode32(w)
        if d is None:
            continue
        dec += 1
        if encode32(d[0], **d[1]) != w:
            fails.append('encode32(decode32(%#010x)) = %#010x' % (w, encode32(d[0], **d[1])))
    # ISS spot checks
    m = rv32.run(bytes.fromhex('b7120000' '9382f2ff'), steps=2)    # lui x5,1 ; addi x5,x5,-1
    if m.x[5] != 0xfff:
        fails.append('ISS lui+addi')
    m = rv32.run((0x00000297).to_bytes(4, 'little') + (0x00828067).to_bytes(4, 'little'), steps=2, stop_outside=False)
    if m.pc != 8:
        fails.append('ISS auipc+jalr pc=%d' % m.pc)
    info = dict(gold=n, legal_rvc=legal, words32=len(words), decoded32=dec)

    if llvm() is None:
        info['llvm'] = 'missing: anchors (a)+(c) only'
    else:
        # ---- 16-bit, disassembly direction
        txt = '\n'.join('0x%02x 0x%02x' % (h & 0xff, h >> 8) for h in range(0x10000) if h & 3 != 3)
        out, err = run_llvm(['--disassemble', '-M', 'no-aliases'], txt)
        outs = [l.split('#')[0].split() for l in out.splitlines() if l.strip() and not l.strip().startswith('.')]
        bad = err.count('invalid instruction encoding')
        hs = [h for h in range(0x10000) if h & 3 != 3]
        # llvm prints one line per valid halfword and a warning per invalid one: reconstruct alignment from counts
        refvalid = []
        for h in hs:
            d = decode16(h)
            refvalid.append(d[0])
        # walk: we cannot align by index without knowing which were invalid, so disassemble one by one in classes
        info['llvm16_lines'] = len(outs)
        info['llvm16_invalid'] = bad
        # precise per-halfword comparison through the assembly direction (pins all fields) + set comparison:
        lines, idx = [], []
        for h in hs:
            d = decode16(h)
            if d[0].startswith('c.'):
                lines.append(llvm_text16(*d))
                idx.append(h)
        out, err = run_llvm(['-show-encoding'], '.option rvc\n' + '\n'.join(lines) + '\n')
        encs = [l for l in out.splitlines() if 'encoding:' in l]
        if len(encs) != len(idx):
            fails.append('llvm16 asm: %d encodings for %d lines; stderr: %s' % (len(encs), len(idx), err[:300]))
        else:
            for h, l in zip(idx, encs):
                b = l.split('encoding: [')[1].split(']')[0].split(',')
                if len(b) != 2 or (int(b[0], 16) | int(b[1], 16) << 8) != h:
                    fails.append('llvm16 asm: %s -> %s, reference %#06x' % (l.split('#')[0].strip(), b, h))
        # RESERVED / ILLEGAL halfwords must be rejected by the LLVM disassembler (one by one for those classes)
        resv = [h for h in hs if decode16(h)[0] in (rv32.RESERVED, rv32.ILLEGAL)]
        txt = '\n'.join('0x%02x 0x%02x' % (h & 0xff, h >> 8) for h in resv)
        out, err = run_llvm(['--disassemble', '-M', 'no-aliases'], txt)
        ok_lines = [l for l in out.splitlines() if l.strip() and not l.strip().startswith('.') and 'unimp' not in l]
        # LLVM 14's *disassembler* is lenient about shamt[5] on riscv32 (decodes the RV64 forms); the manual reserves
        # them on RV32 and LLVM's own assembler refuses them, so they are exempt from this cross-check
        rv64shift = lambda l: l.split()[0] in ('c.slli', 'c.srli', 'c.srai', 'slli', 'srli', 'srai') and int(l.split()[-1]) >= 32
        # likewise `c.lui rd, 0`: "the code points with nzimm=0 are reserved" (C chapter), LLVM's disassembler prints them
        ok_lines = [l for l in ok_lines if not rv64shift(l) and not (l.split()[0] == 'c.lui' and l.split()[-1] == '0')]
        if ok_lines:
            fails.append('llvm disassembles %d halfwords the reference calls reserved, e.g. %s' % (len(ok_lines), ok_lines[:3]))
        info['llvm16_checked'] = len(idx)
        info['reserved16'] = len(resv)
        # ---- 32-bit, both directions
        val = [w for w in words if decode32(w) is not None]
        inv = [w for w in words if decode32(w) is None]
        txt = '\n'.join(' '.join('0x%02x' % ((w >> s) & 0xff) for s in (0, 8, 16, 24)) for w in inv)
        out, err = run_llvm(['--disassemble', '-M', 'no-aliases'], txt)
        ok_lines = [l.strip() for l in out.splitlines() if l.strip() and not l.strip().startswith('.')]
        # words LLVM knows but we deliberately do not accept (privileged, fence.tso, pause, ...) are fine; only
        # flag mnemonics that ARE in the accepted set
        accepted = set(rv32._R) | set(rv32._I) | set(rv32._SH) | set(rv32._S) | set(rv32._B) | set(rv32._CSRN) | \
            {'lui', 'auipc', 'jal', 'fence.i', 'ecall', 'ebreak'}
        for l in ok_lines:
            if rv64shift(l):
                continue
            m0 = l.split()[0]
            base = m0.split('.aq')[0].split('.rl')[0]
            if base in accepted or base in rv32._AMON:
                fails.append('llvm decodes a word the reference rejects: ' + l)
        lines, idx = [], []
        for w in val:
            t = llvm_text32(*decode32(w))
            if t is not None:
                lines.append(t)
                idx.append(w)
        out, err = run_llvm(['-show-encoding'], '.option norvc\n' + '\n'.join(lines) + '\n')
        encs = [l for l in out.splitlines() if 'encoding:' in l]
        if len(encs) != len(idx):
            fails.append('llvm32 asm: %d encodings for %d lines; stderr: %s' % (len(encs), len(idx), err[:400]))
        else:
            for w, l in zip(idx, encs):
                b = l.split('encoding: [')[1].split(']')[0].split(',')
                got = sum(int(v, 16) << (8 * i) for i, v in enumerate(b))
                if got != w:
                    fails.append('llvm32 asm: %s -> %#010x, reference %#010x' % (l.split('#')[0].strip(), got, w))
        info['llvm32_checked'] = len(idx)
        info['llvm32_invalid_checked'] = len(inv)
    info['wall_s'] = round(time.time() - t0, 2)
    if verbose:
        print('selftest', info)
        for f in fails[:20]:
            print('SELFTEST-FAIL', f)
    return fails, info


if __name__ == '__main__':
    sys.exit(1 if main()[0] else 0)
