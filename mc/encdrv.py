"""shared pieces of the encoder-level drivers (C01 C02 C06 C20)"""
import struct

from mc import isa, kernel
from mc.ref import rv32


def call(asm, mn, ops):
    sig = isa.ALL[mn]
    pos = [v for (r, k), v in zip(sig, ops) if r not in isa.KWARGS]
    kw = {r: v for (r, k), v in zip(sig, ops) if r in isa.KWARGS}
    return asm.INSTRUCTIONS[mn](*pos, **kw)


def decode(mn, w):
    if not isinstance(w, int) or w < 0:
        return None
    if mn.startswith('c.'):
        return rv32.decode16(w) if w <= 0xffff else None
    return rv32.decode32(w) if w <= 0xffffffff else None


def window(kind, margin=70):
    """every integer from 3 scales + margin below the legal minimum to the same above the maximum (plus the
    neighbourhood of the alternative spellings), and far values that expose masking / wrap-around"""
    lo, hi, step, zero, extra = isa.KINDS[kind]
    m = 3 * step + margin
    vals = set(range(lo - m, hi + m + 1)) if hi - lo <= 70000 else (
        set(range(lo - m, lo + m)) | set(range(-m, m)) | set(range(hi - m, hi + m + 1)))
    for a, b in extra:
        vals |= set(range(a - m, a + m)) | set(range(b - m, b + m + 1))
        if b - a < 5000:
            vals |= set(range(a, b + 1))
    span = 1
    while span <= 2 ** 33:
        for base in (span, -span):
            vals.update((base - 1, base, base + 1, base + lo, base + hi, base - step, base + step))
        span *= 2
    for k in (12, 16, 20, 21, 31, 32, 33):
        vals.update((2 ** k + lo, 2 ** k + hi, 2 ** k + step, -(2 ** k) + lo, -(2 ** k) + hi))
    return sorted(vals, key=lambda v: (abs(v), v))     # simplest first: the first counterexample is the smallest


def base_tuples(mn, n=3):
    """a few all-legal operand tuples of a mnemonic (used as the fixed part while one operand sweeps)"""
    sig = isa.ALL[mn]
    outs = []
    for j in range(n):
        t = []
        for r, k in sig:
            v = isa.values(k)
            t.append(v[(len(v) * (j + 1)) // (n + 1)])
        outs.append(tuple(t))
    return list(dict.fromkeys(outs))


def words_of(out, size):
    fmt = '<%d%s' % (len(out) // size, 'H' if size == 2 else 'I')
    return struct.unpack(fmt, out)


_WARM = {}


def warm(asm):
    """put the interpreter into a USED state before a task: every one of the 93 encoders is called once with a legal tuple and one program holding every mnemonic is
    assembled in both modes.  An encoder or a table that keeps state from call to call (a shared constraint list that grows, a cache keyed too coarsely) then shows in
    whatever the task enumerates, independently of the order in which tasks happen to reach a worker.  Failures here are ignored: the sweeps themselves judge."""
    if 'lines' not in _WARM:
        lines = []
        for mn in isa.ALL:
            for ops in base_tuples(mn, 2):
                lines.append((mn, ops, isa.render(mn, ops)))
        _WARM['lines'] = lines
    for mn, ops, line in _WARM['lines']:
        try:
            call(asm, mn, ops)
        except Exception:
            pass
    text = '\n'.join(l for m, o, l in _WARM['lines']) + '\n'
    for comp in (False, True):
        try:
            asm.assemble(text, compress=comp)
        except Exception:
            pass
