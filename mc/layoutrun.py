"""Generic runner of the layout explorer: S1 history tree + S2 span / grid programs, judged by a property module.

A property module provides: PROP, judge(ctx, items, res, driver, case), alphabet(tier) -> instantiated symbols,
depth(tier), s2_tasks(tier) -> [task dict], s2_programs(task) -> iterable of item lists, nontrivial(items, res),
MODES (default both), optional extra(tier, merged) for further sub-drivers, describe(tier) -> bound text.
"""
import importlib

from mc import kernel, progs
from mc.ref import layout as L


def _mod(task):
    return importlib.import_module(task['mod'])


def prog_case(modname):
    def drv(ctx, case):
        asm = kernel.boot()
        mod = importlib.import_module(modname)
        if getattr(mod, 'NEEDS_FILES', False):
            kernel.workdir()
        items = case['items']
        res = progs.analyze(asm, items, getattr(mod, 'MODES', (False, True)))
        mod.judge(ctx, items, res, 'prog_case', case)
    return drv


def _one(ctx, asm, mod, items, explorer, extra=None):
    ctx.count('programs')
    res = progs.analyze(asm, items, getattr(mod, 'MODES', (False, True)))
    for r in res.values():
        ctx.count('assemblies')
        if r.status == 'ok':
            ctx.count('walked')
        else:
            ctx.count('refused')
            ctx.seen('refusals', progs.refusal_class(r))
    mod.judge(ctx, items, res, 'prog_case', dict(items=items))
    if mod.nontrivial(items, res):
        ctx.count('nontrivial')
        s = dict(explorer=explorer, source=[l[:70] for l in L.source(items).splitlines()])
        if extra:
            s.update(extra)
        ctx.sample(s, cap=1)


def s1_task(ctx, task):
    asm = kernel.boot()
    mod = _mod(task)
    if getattr(mod, 'NEEDS_FILES', False):
        kernel.workdir()
    progs.closed_programs.stats = {'histories': 0, 'open': 0}
    alpha = s1_runs(mod, task['tier'])[task.get('run', 0)][0]
    for names, items in progs.closed_programs(alpha, task['depth'], ['A', 'B', 'C'], tuple(task['prefix'])):
        _one(ctx, asm, mod, items, 'S1')
    ctx.count('histories', progs.closed_programs.stats['histories'])
    ctx.count('open_histories', progs.closed_programs.stats['open'])


def s2_task(ctx, task):
    asm = kernel.boot()
    mod = _mod(task)
    if getattr(mod, 'NEEDS_FILES', False):
        kernel.workdir()
    for items in mod.s2_programs(task):
        _one(ctx, asm, mod, items, 'S2')


def s1_runs(mod, tier):
    """[(alphabet, depth)]: the S1 history trees of a property; thorough adds a deeper tree over the quick alphabet"""
    runs = [(mod.alphabet(tier), mod.depth(tier))]
    if tier == 'thorough' and getattr(mod, 'DEEP', None):
        runs.append((mod.alphabet('quick'), mod.DEEP))
    if hasattr(mod, 'extra_runs'):
        runs += mod.extra_runs(tier)
    return runs


def run(mod, tier, seed, t0, assumptions):
    name = mod.__name__
    alpha = mod.alphabet(tier)
    depth = mod.depth(tier)
    m = kernel.Merged()
    for ri, (al, dp) in enumerate(s1_runs(mod, tier)):
        if al and dp:
            tasks = [dict(t, tier=tier, mod=name, run=ri) for t in progs.s1_tasks(al, dp, 2)]
            m = kernel.explore(s1_task, tasks, merged=m)
    s2 = [dict(t, tier=tier, mod=name) for t in mod.s2_tasks(tier)]
    if s2:
        m = kernel.explore(s2_task, s2, merged=m)
    if hasattr(mod, 'extra'):
        mod.extra(tier, m)
    n = m.n
    cov = dict(states=n['programs'] + n['extra_states'], transitions=n['assemblies'] + n['extra_transitions'],
               traces_validated_against_impl=n['walked'] + n['extra_traces'],
               evaluations=n['assemblies'] + n['extra_transitions'], distinct_nontrivial=n['nontrivial'] + n['extra_nontrivial'],
               rule=mod.RULE, exhaustive=True, depth=depth, deep_tree_depth=(getattr(mod, 'DEEP', None) if tier == 'thorough' else None), alphabet=[s[0] for s in alpha], histories=n['histories'],
               open_histories=n['open_histories'], bound=mod.describe(tier), refused=n['refused'], s2_tasks=len(s2))
    return kernel.finish(mod.PROP, tier, seed, t0, m, cov, assumptions)
