"""Operand signatures and legal operand sets of every mnemonic bronzebeard documents.

Written from the RISC-V unprivileged manual and docs/instruction_reference.rst (operand *order* is the documented
one: `sw rs1, rs2, imm`, `fence succ, pred`, `csrrwi rd, uimm, csr`, `c.sw rs1', rs2', uimm`).  Roles are the field
names mc.ref.rv32.decode32/decode16 return, so `decode(encode(operands)) == expected_fields(operands)` is the
whole oracle.  Nothing here is derived from asm.py.
"""
from mc.ref.rv32 import sext

# kind -> (lo, hi, step, zero_allowed, extra inclusive ranges)
KINDS = {
    'reg':       (0, 31, 1, True, ()),
    'creg':      (8, 15, 1, True, ()),
    'reg_nz':    (1, 31, 1, True, ()),
    'reg_nz_n2': (1, 31, 1, True, ()),     # and != 2, see legal()
    'shamt':     (0, 31, 1, True, ()),
    'i12':       (-2048, 2047, 1, True, ()),
    'i12e':      (-2048, 2046, 2, True, ()),                     # jalr: documented "12-bit MO2"
    'csr':       (-2048, 2047, 1, True, ()),                     # see DESIGN: CSR numbers share the I-type range
    'b13':       (-4096, 4094, 2, True, ()),
    'j21':       (-(1 << 20), (1 << 20) - 2, 2, True, ()),
    'u20':       (-(1 << 19), (1 << 19) - 1, 1, True, ((0x80000, 0xfffff),)),
    'fset':      (0, 15, 1, True, ()),
    'bit':       (0, 1, 1, True, ()),
    'ciw':       (4, 1020, 4, False, ()),
    'cl':        (0, 124, 4, True, ()),
    'ci':        (-32, 31, 1, True, ()),
    'ci_nz':     (-32, 31, 1, False, ()),
    'cia':       (-512, 496, 16, False, ()),
    'clui':      (-32, 31, 1, False, ((0xfffe0, 0xfffff),)),
    'cshamt':    (1, 31, 1, False, ()),
    'cj':        (-2048, 2046, 2, True, ()),
    'cb':        (-256, 254, 2, True, ()),
    'css':       (0, 252, 4, True, ()),
}
REGKINDS = {'reg', 'creg', 'reg_nz', 'reg_nz_n2'}


def legal(kind, v):
    lo, hi, step, zero, extra = KINDS[kind]
    if kind == 'reg_nz_n2' and v == 2:
        return False
    if lo <= v <= hi and v % step == 0 and (zero or v != 0):
        return True
    return any(a <= v <= b for a, b in extra)


def values(kind):
    lo, hi, step, zero, extra = KINDS[kind]
    out = [v for v in range(lo, hi + 1, step) if (zero or v != 0) and not (kind == 'reg_nz_n2' and v == 2)]
    for a, b in extra:
        out.extend(range(a, b + 1))
    return out


def canon(kind, v):
    """the field value the decoder reports for a legal operand"""
    if kind == 'u20':
        return sext(v, 20)
    if kind == 'clui':
        return sext(v, 6) if v > 31 else v
    if kind == 'csr':
        return v & 0xfff
    return v


R3 = [('rd', 'reg'), ('rs1', 'reg'), ('rs2', 'reg')]
SH = [('rd', 'reg'), ('rs1', 'reg'), ('shamt', 'shamt')]
I3 = [('rd', 'reg'), ('rs1', 'reg'), ('imm', 'i12')]
S3 = [('rs1', 'reg'), ('rs2', 'reg'), ('imm', 'i12')]
B3 = [('rs1', 'reg'), ('rs2', 'reg'), ('imm', 'b13')]
AMO = R3 + [('aq', 'bit'), ('rl', 'bit')]

M32 = {}
for _m in 'add sub sll slt sltu xor srl sra or and mul mulh mulhsu mulhu div divu rem remu'.split():
    M32[_m] = R3
for _m in 'slli srli srai'.split():
    M32[_m] = SH
for _m in 'lb lh lw lbu lhu addi slti sltiu xori ori andi'.split():
    M32[_m] = I3
M32['jalr'] = [('rd', 'reg'), ('rs1', 'reg'), ('imm', 'i12e')]
for _m in 'csrrw csrrs csrrc'.split():
    M32[_m] = [('rd', 'reg'), ('rs1', 'reg'), ('csr', 'csr')]
for _m in 'csrrwi csrrsi csrrci'.split():
    M32[_m] = [('rd', 'reg'), ('uimm', 'reg'), ('csr', 'csr')]
for _m in 'ecall ebreak fence.i'.split():
    M32[_m] = []
for _m in 'sb sh sw'.split():
    M32[_m] = S3
for _m in 'beq bne blt bge bltu bgeu'.split():
    M32[_m] = B3
for _m in 'lui auipc'.split():
    M32[_m] = [('rd', 'reg'), ('imm', 'u20')]
M32['jal'] = [('rd', 'reg'), ('imm', 'j21')]
M32['fence'] = [('succ', 'fset'), ('pred', 'fset')]
for _m in 'sc.w amoswap.w amoadd.w amoxor.w amoand.w amoor.w amomin.w amomax.w amominu.w amomaxu.w'.split():
    M32[_m] = AMO
M32['lr.w'] = [('rd', 'reg'), ('rs1', 'reg'), ('aq', 'bit'), ('rl', 'bit')]
assert len(M32) == 66

FIXED32 = {'fence': dict(fm=0, rd=0, rs1=0), 'fence.i': dict(rd=0, rs1=0, imm=0)}
KWARGS = {'aq', 'rl'}          # handed to the encoder as keyword arguments
BASE_OFFSET = {'jalr', 'lb', 'lh', 'lw', 'lbu', 'lhu', 'sb', 'sh', 'sw', 'c.lw', 'c.sw'}

M16 = {
    'c.addi4spn': [('rd', 'creg'), ('imm', 'ciw')],
    'c.lw':       [('rd', 'creg'), ('rs1', 'creg'), ('imm', 'cl')],
    'c.sw':       [('rs1', 'creg'), ('rs2', 'creg'), ('imm', 'cl')],
    'c.nop':      [],
    'c.addi':     [('rd', 'reg_nz'), ('imm', 'ci_nz')],
    'c.jal':      [('imm', 'cj')],
    'c.li':       [('rd', 'reg_nz'), ('imm', 'ci')],
    'c.addi16sp': [('imm', 'cia')],
    'c.lui':      [('rd', 'reg_nz_n2'), ('imm', 'clui')],
    'c.srli':     [('rd', 'creg'), ('imm', 'cshamt')],
    'c.srai':     [('rd', 'creg'), ('imm', 'cshamt')],
    'c.andi':     [('rd', 'creg'), ('imm', 'ci')],
    'c.sub':      [('rd', 'creg'), ('rs2', 'creg')],
    'c.xor':      [('rd', 'creg'), ('rs2', 'creg')],
    'c.or':       [('rd', 'creg'), ('rs2', 'creg')],
    'c.and':      [('rd', 'creg'), ('rs2', 'creg')],
    'c.j':        [('imm', 'cj')],
    'c.beqz':     [('rs1', 'creg'), ('imm', 'cb')],
    'c.bnez':     [('rs1', 'creg'), ('imm', 'cb')],
    'c.slli':     [('rd', 'reg_nz'), ('imm', 'cshamt')],
    'c.lwsp':     [('rd', 'reg_nz'), ('imm', 'css')],
    'c.jr':       [('rs1', 'reg_nz')],
    'c.mv':       [('rd', 'reg_nz'), ('rs2', 'reg_nz')],
    'c.ebreak':   [],
    'c.jalr':     [('rs1', 'reg_nz')],
    'c.add':      [('rd', 'reg_nz'), ('rs2', 'reg_nz')],
    'c.swsp':     [('rs2', 'reg'), ('imm', 'css')],
}
assert len(M16) == 27
ALL = dict(M32)
ALL.update(M16)


def expected_fields(mn, ops):
    """decoder fields a legal operand tuple must produce"""
    sig = ALL[mn]
    f = {role: canon(kind, v) for (role, kind), v in zip(sig, ops)}
    f.update(FIXED32.get(mn, {}))
    return f


def all_legal(mn, ops):
    return all(legal(kind, v) for (role, kind), v in zip(ALL[mn], ops))


ABI = ['zero', 'ra', 'sp', 'gp', 'tp', 't0', 't1', 't2', 's0', 's1'] + ['a%d' % i for i in range(8)] + \
      ['s%d' % i for i in range(2, 12)] + ['t%d' % i for i in range(3, 7)]


def reg_spellings(r):
    """every documented spelling of register r"""
    out = [str(r), 'x%d' % r, ABI[r], hex(r)]
    if r == 8:
        out.append('fp')
    return out


def int_spellings(v):
    out = [str(v), ('-' if v < 0 else '') + hex(abs(v)), ('-' if v < 0 else '') + bin(abs(v))]
    return out


def render(mn, ops, regsp=1, intsp=0, offset_syntax=False):
    """source line for a mnemonic and integer operands in documented operand order.
    regsp: index into reg_spellings (clamped); intsp: index into int_spellings."""
    sig = ALL[mn]
    toks = []
    for (role, kind), v in zip(sig, ops):
        if kind in REGKINDS and role != 'uimm':
            sp = reg_spellings(v)
            toks.append(sp[min(regsp, len(sp) - 1)] if regsp < 4 or v == 8 else sp[1])
        else:
            toks.append(int_spellings(v)[intsp])
    if offset_syntax and mn in BASE_OFFSET:
        if mn in ('sb', 'sh', 'sw', 'c.sw'):
            rs1, rs2, imm = toks
            return '%s %s, %s(%s)' % (mn, rs2, imm, rs1)
        rd, rs1, imm = toks
        return '%s %s, %s(%s)' % (mn, rd, imm, rs1)
    return (mn + ' ' + ', '.join(toks)).strip()
