"""Child process of the C16 explorer: executes one history of assemble() calls in ONE fresh interpreter and prints,
per step, the complete observable result plus a structural hash of everything mutable reachable from bronzebeard.asm."""
import functools
import hashlib
import json
import logging
import os
import sys
import types

REPO = os.environ.get('VERIF_REPO', '/repo').rstrip('/')
sys.path.insert(0, REPO)
import bronzebeard.asm as asm    # noqa: E402

assert os.path.abspath(asm.__file__).startswith(REPO + '/'), asm.__file__

OPS = {
    'def':        dict(src='FOO = 5\nR = x9\nL1:\naddi R, R, FOO\nj L1\n'),
    'use_const':  dict(src='addi x8, x8, FOO\n'),
    'use_label':  dict(src='j L1\n'),
    'use_alias':  dict(src='addi R, R, 1\n'),
    'def_nd':       dict(src='FOO = 5\nR = x9\nL1:\naddi R, R, FOO\nj L1\n', nodicts=True),
    'use_const_nd': dict(src='addi x8, x8, FOO\n', nodicts=True),
    'use_label_nd': dict(src='j L1\n', nodicts=True, compress=True),
    'use_alias_nd': dict(src='addi R, R, 1\n', nodicts=True),
    'fail_parse': dict(src='addi x8, x8, 1\nerror stop here\n'),
    'fail_const': dict(src='K = 1 // 0\nFOO = 9\n'),
    'fail_enc':   dict(src='L1:\nFOO = 7\naddi x8, x8, 5000\n'),
    'fail_data':  dict(src='R = x5\nX:\ndb 256\n', compress=True),
    'ok_c':       dict(src='A:\naddi x8, x8, 1\nbeq x8, x0, A\nli x9, 0x12345\nB:\ncall A\n', compress=True),
    'ok_u':       dict(src='A:\naddi x8, x8, 1\nbeq x8, x0, A\nli x9, 0x12345\nB:\ncall A\n', compress=False),
    # no pseudo-instruction at all; a forward branch that only fits c.beqz once the 80 instructions behind it have been compressed (decided in the SECOND compression round)
    'edge_c':     dict(src='beq x8, x0, done\n' + 'addi x10, x10, 1\n' * 80 + 'done:\nadd x5, x6, x7\n', compress=True),
    # a -c program that fails inside the pseudo-instruction pass after an earlier pseudo-instruction was expanded
    'fail_pseudo_c': dict(src='nop\nli x5, NO_SUCH_SYMBOL\n', compress=True),
    'many':       dict(src=''.join('%s:\n%s_K = %d\ndb %d\n' % (n, n, i, i) for i, n in enumerate('zeta alpha mid beta omega gamma y x w q'.split())), nodicts=True),
    # two boards sharing ONE caller-owned include_dirs list object (kept alive for the whole history): each has its own config.asm beside its main file
    'board1':     dict(board=1, compress=False),
    'board2':     dict(board=2, compress=True),
    # one main file, `include lib.asm`, resolved through DIFFERENT include_dirs lists that hold different lib.asm files
    'incX':       dict(inc='x'),
    'incY':       dict(inc='y', compress=True),
    # a nested include that is missing (fails while READING an included file), and the same tree complete
    'incfail':    dict(tree='fail'),
    'incgood':    dict(tree='good'),
    # two programs defining the same labels in opposite order, handed ONE caller-owned labels dict (and one constants dict) that is reused from call to call
    'sharedAB':   dict(src='first:\naddi x8, x8, 1\nsecond:\nadd x5, x6, x7\nj first\n', compress=True, shared=True),
    'sharedBA':   dict(src='second:\naddi x8, x8, 1\nadd x5, x6, x7\nfirst:\nj second\n', compress=True, shared=True),
    'path_A':     dict(path=True, main='include inc.asm\nM:\nnop\n', inc='FOO = 1\nI:\naddi x8, x8, FOO\n'),
    'path_B':     dict(path=True, main='M:\ninclude inc.asm\nadd x5, x6, x7\n', inc='FOO = 2\nI:\naddi x9, x9, FOO\n', compress=True),
}


def canon(o, depth=0, seen=None):
    seen = seen if seen is not None else set()
    if depth > 6:
        return '...'
    if isinstance(o, (int, str, bytes, float, bool, type(None))):
        return repr(o)
    if id(o) in seen:
        return '<cycle>'
    seen = seen | {id(o)}
    if isinstance(o, dict):
        return '{' + ','.join(sorted(canon(k, depth + 1, seen) + ':' + canon(v, depth + 1, seen) for k, v in o.items())) + '}'
    if isinstance(o, (set, frozenset)):
        return 'set(' + ','.join(sorted(canon(v, depth + 1, seen) for v in o)) + ')'
    if isinstance(o, (list, tuple)):
        return '[' + ','.join(canon(v, depth + 1, seen) for v in o) + ']'
    if isinstance(o, functools.partial):
        return 'partial(%s,%s,%s)' % (canon(o.func, depth + 1, seen), canon(o.args, depth + 1, seen), canon(o.keywords, depth + 1, seen))
    if isinstance(o, types.FunctionType):
        cells = [c.cell_contents for c in (o.__closure__ or ()) if _has(c)]
        return 'fn(%s,%s,%s,%s,%s)' % (o.__qualname__, canon(o.__defaults__, depth + 1, seen), canon(o.__kwdefaults__, depth + 1, seen),
                                       canon(cells, depth + 1, seen), canon(vars(o), depth + 1, seen))
    if isinstance(o, type):
        attrs = {k: v for k, v in vars(o).items() if not k.startswith('__') and not callable(v) and not isinstance(v, (property, staticmethod, classmethod))}
        return 'class(%s,%s)' % (o.__qualname__, canon(attrs, depth + 1, seen))
    if isinstance(o, logging.Logger):
        return 'Logger(%s)' % o.name       # the logging module's private level cache is not state the assembler can read back
    if isinstance(o, types.ModuleType):
        return 'module(%s)' % o.__name__
    try:
        return type(o).__name__ + canon(vars(o), depth + 1, seen)
    except TypeError:
        return type(o).__name__


def _has(cell):
    try:
        cell.cell_contents
        return True
    except ValueError:
        return False


def state_hash():
    items = {k: v for k, v in vars(asm).items() if not k.startswith('__')}
    return hashlib.sha1(canon(items).encode()).hexdigest()[:16]


SHARED_INC = []
SHARED_LABELS, SHARED_CONSTS = {}, {}


def run_op(name, scratch, keep):
    op = OPS[name]
    labels, consts = {}, {}
    kw = dict(compress=op.get('compress', False))
    if op.get('shared'):
        labels, consts = SHARED_LABELS, SHARED_CONSTS
    if not op.get('nodicts'):
        kw.update(labels=labels, constants=consts)
    if op.get('board'):
        for b, v in ((1, 0x111), (2, 0x222)):
            os.makedirs(os.path.join(scratch, 'b%d' % b), exist_ok=True)
            with open(os.path.join(scratch, 'b%d' % b, 'config.asm'), 'w') as f:
                f.write('CFG = %d\n' % v)
            with open(os.path.join(scratch, 'b%d' % b, 'main.asm'), 'w') as f:
                f.write('include config.asm\ninclude lib.asm\nboard%d:\ndw CFG\ndw LIBV\n' % b)
        os.makedirs(os.path.join(scratch, 'lib'), exist_ok=True)
        with open(os.path.join(scratch, 'lib', 'lib.asm'), 'w') as f:
            f.write('LIBV = 9\n')
        if not SHARED_INC:
            SHARED_INC.append(os.path.join(scratch, 'lib'))
        kw['include_dirs'] = SHARED_INC
        arg = os.path.join(scratch, 'b%d' % op['board'], 'main.asm')
    elif op.get('tree'):
        d = os.path.join(scratch, 'tree')
        os.makedirs(d, exist_ok=True)
        with open(os.path.join(d, 'main.asm'), 'w') as f:
            f.write('top:\ninclude common.asm\naddi x8, x8, CHIPV\n')
        with open(os.path.join(d, 'common.asm'), 'w') as f:
            f.write('common:\ninclude chip.asm\n')
        chip = os.path.join(d, 'chip.asm')
        if op['tree'] == 'good':
            with open(chip, 'w') as f:
                f.write('CHIPV = 3\n')
        elif os.path.exists(chip):
            os.remove(chip)
        arg = os.path.join(d, 'main.asm')
    elif op.get('inc'):
        for d, v in (('x', 0x58), ('y', 0x59)):
            os.makedirs(os.path.join(scratch, 'lib' + d), exist_ok=True)
            with open(os.path.join(scratch, 'lib' + d, 'lib.asm'), 'w') as f:
                f.write('LIBV = %d\nlib:\ndw LIBV\n' % v)
        os.makedirs(os.path.join(scratch, 'fw'), exist_ok=True)
        with open(os.path.join(scratch, 'fw', 'main.asm'), 'w') as f:
            f.write('start:\ninclude lib.asm\naddi x8, x8, LIBV\n')
        kw['include_dirs'] = [os.path.join(scratch, 'lib' + op['inc'])]
        arg = os.path.join(scratch, 'fw', 'main.asm')
    elif op.get('path'):
        os.makedirs(scratch, exist_ok=True)
        with open(os.path.join(scratch, 'inc.asm'), 'w') as f:
            f.write(op['inc'])
        with open(os.path.join(scratch, 'main.asm'), 'w') as f:
            f.write(op['main'])
        arg = os.path.join(scratch, 'main.asm')
    else:
        arg = op['src']
    res = dict(op=name)
    try:
        out = asm.assemble(arg, **kw)
        res.update(status='ok', out=bytes(out).hex())
    except asm.AssemblerError as e:
        ln = e.line
        res.update(status='AssemblerError', message=str(e.message).replace(scratch, '<S>'), file=str(getattr(ln, 'file', None)).replace(scratch, '<S>'),
                   number=getattr(ln, 'number', None))
    except BaseException as e:
        res.update(status=type(e).__name__, message=str(e).replace(scratch, '<S>'))
    res['labels'] = list(labels.items())
    res['constants'] = list(consts.items())
    if not op.get('shared'):
        keep.append((labels, consts, list(labels.items()), list(consts.items())))
    else:
        # what a caller would read back for THIS program: its own labels (a reused dict may hold labels of other programs as well)
        res['labels'] = sorted((k, v) for k, v in labels.items() if k in ('first', 'second'))
    # dictionaries handed out by earlier calls must not be touched by later ones
    res['earlier_dicts_intact'] = all(list(l.items()) == ls and list(c.items()) == cs for l, c, ls, cs in keep)
    # a caller-owned include_dirs list must come back exactly as it was handed in
    res['include_dirs_intact'] = (SHARED_INC in ([], [os.path.join(scratch, 'lib')]))
    res['state'] = state_hash()
    return res


def main():
    hist = json.loads(sys.argv[1])
    scratch = sys.argv[2]
    keep = []
    results = [dict(op='<initial>', state=state_hash())]
    for name in hist:
        results.append(run_op(name, scratch, keep))
    print(json.dumps(results))


if __name__ == '__main__':
    main()
