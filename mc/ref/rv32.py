"""Reference model of RV32IMAC + Zicsr + Zifencei, written from the unprivileged ISA manual.

Nothing in here is shared with bronzebeard/asm.py: the decoder rebuilds every field from the
format diagrams, the RVC tables come from the "C" chapter (quadrant tables 16.5-16.7), the
expansion is the one the chapter gives for each RVC instruction, and `step` is a one-instruction
interpreter for the integer subset.  The oracles of all properties that talk about encodings or
effects go through this module; mc/selftest.py anchors it (golden vectors + llvm-mc-14).
"""

M32 = 0xffffffff


def sext(v, bits):
    v &= (1 << bits) - 1
    return v - (1 << bits) if v >> (bits - 1) else v


def bits(w, hi, lo):
    return (w >> lo) & ((1 << (hi - lo + 1)) - 1)


# ----------------------------------------------------------------------------------------------
# 32-bit decoder
# ----------------------------------------------------------------------------------------------

_LOADS = {0: 'lb', 1: 'lh', 2: 'lw', 4: 'lbu', 5: 'lhu'}
_STORES = {0: 'sb', 1: 'sh', 2: 'sw'}
_BRANCH = {0: 'beq', 1: 'bne', 4: 'blt', 5: 'bge', 6: 'bltu', 7: 'bgeu'}
_OPIMM = {0: 'addi', 2: 'slti', 3: 'sltiu', 4: 'xori', 6: 'ori', 7: 'andi'}
_OP0 = {0: 'add', 1: 'sll', 2: 'slt', 3: 'sltu', 4: 'xor', 5: 'srl', 6: 'or', 7: 'and'}
_OPM = {0: 'mul', 1: 'mulh', 2: 'mulhsu', 3: 'mulhu', 4: 'div', 5: 'divu', 6: 'rem', 7: 'remu'}
_CSR = {1: 'csrrw', 2: 'csrrs', 3: 'csrrc', 5: 'csrrwi', 6: 'csrrsi', 7: 'csrrci'}
_AMO = {0b00010: 'lr.w', 0b00011: 'sc.w', 0b00001: 'amoswap.w', 0b00000: 'amoadd.w',
        0b00100: 'amoxor.w', 0b01100: 'amoand.w', 0b01000: 'amoor.w', 0b10000: 'amomin.w',
        0b10100: 'amomax.w', 0b11000: 'amominu.w', 0b11100: 'amomaxu.w'}


def decode32(w):
    """word -> (mnemonic, {field: value}) or None if not a supported RV32IMA/Zicsr/Zifencei word."""
    if w & 3 != 3 or not 0 <= w <= M32:
        return None
    op = w & 0x7f
    rd, f3, rs1, rs2, f7 = bits(w, 11, 7), bits(w, 14, 12), bits(w, 19, 15), bits(w, 24, 20), bits(w, 31, 25)
    if op == 0b0110111:
        return 'lui', dict(rd=rd, imm=sext(w >> 12, 20))
    if op == 0b0010111:
        return 'auipc', dict(rd=rd, imm=sext(w >> 12, 20))
    if op == 0b1101111:
        imm = (bits(w, 31, 31) << 20) | (bits(w, 19, 12) << 12) | (bits(w, 20, 20) << 11) | (bits(w, 30, 21) << 1)
        return 'jal', dict(rd=rd, imm=sext(imm, 21))
    if op == 0b1100111:
        if f3 != 0:
            return None
        return 'jalr', dict(rd=rd, rs1=rs1, imm=sext(w >> 20, 12))
    if op == 0b1100011:
        if f3 not in _BRANCH:
            return None
        imm = (bits(w, 31, 31) << 12) | (bits(w, 7, 7) << 11) | (bits(w, 30, 25) << 5) | (bits(w, 11, 8) << 1)
        return _BRANCH[f3], dict(rs1=rs1, rs2=rs2, imm=sext(imm, 13))
    if op == 0b0000011:
        if f3 not in _LOADS:
            return None
        return _LOADS[f3], dict(rd=rd, rs1=rs1, imm=sext(w >> 20, 12))
    if op == 0b0100011:
        if f3 not in _STORES:
            return None
        imm = (f7 << 5) | rd
        return _STORES[f3], dict(rs1=rs1, rs2=rs2, imm=sext(imm, 12))
    if op == 0b0010011:
        if f3 in _OPIMM:
            return _OPIMM[f3], dict(rd=rd, rs1=rs1, imm=sext(w >> 20, 12))
        if f3 == 1:
            if f7 != 0:
                return None
            return 'slli', dict(rd=rd, rs1=rs1, shamt=rs2)
        if f3 == 5:
            if f7 == 0:
                return 'srli', dict(rd=rd, rs1=rs1, shamt=rs2)
            if f7 == 0b0100000:
                return 'srai', dict(rd=rd, rs1=rs1, shamt=rs2)
            return None
    if op == 0b0110011:
        if f7 == 0:
            return _OP0[f3], dict(rd=rd, rs1=rs1, rs2=rs2)
        if f7 == 0b0100000:
            if f3 == 0:
                return 'sub', dict(rd=rd, rs1=rs1, rs2=rs2)
            if f3 == 5:
                return 'sra', dict(rd=rd, rs1=rs1, rs2=rs2)
            return None
        if f7 == 1:
            return _OPM[f3], dict(rd=rd, rs1=rs1, rs2=rs2)
        return None
    if op == 0b0001111:
        if f3 == 0:
            return 'fence', dict(fm=bits(w, 31, 28), pred=bits(w, 27, 24), succ=bits(w, 23, 20), rd=rd, rs1=rs1)
        if f3 == 1:
            return 'fence.i', dict(rd=rd, rs1=rs1, imm=bits(w, 31, 20))
        return None
    if op == 0b1110011:
        if f3 == 0:
            if w == 0x00000073:
                return 'ecall', {}
            if w == 0x00100073:
                return 'ebreak', {}
            return None
        if f3 in (1, 2, 3):
            return _CSR[f3], dict(rd=rd, rs1=rs1, csr=bits(w, 31, 20))
        if f3 in (5, 6, 7):
            return _CSR[f3], dict(rd=rd, uimm=rs1, csr=bits(w, 31, 20))
        return None
    if op == 0b0101111:
        if f3 != 2:
            return None
        f5 = bits(w, 31, 27)
        if f5 not in _AMO:
            return None
        aq, rl = bits(w, 26, 26), bits(w, 25, 25)
        if f5 == 0b00010:
            if rs2 != 0:
                return None
            return 'lr.w', dict(rd=rd, rs1=rs1, aq=aq, rl=rl)
        return _AMO[f5], dict(rd=rd, rs1=rs1, rs2=rs2, aq=aq, rl=rl)
    return None


# ----------------------------------------------------------------------------------------------
# reference 32-bit encoder (used by expand16 and by the self-test round trip; independent of asm.py)
# ----------------------------------------------------------------------------------------------

_R = {}
for _f3, _n in _OP0.items():
    _R[_n] = (0b0110011, _f3, 0)
_R['sub'] = (0b0110011, 0, 0b0100000)
_R['sra'] = (0b0110011, 5, 0b0100000)
for _f3, _n in _OPM.items():
    _R[_n] = (0b0110011, _f3, 1)
_I = {}
for _f3, _n in _OPIMM.items():
    _I[_n] = (0b0010011, _f3)
for _f3, _n in _LOADS.items():
    _I[_n] = (0b0000011, _f3)
_I['jalr'] = (0b1100111, 0)
_OPIMM_N = set(_OPIMM.values())
_SH = {'slli': (1, 0), 'srli': (5, 0), 'srai': (5, 0b0100000)}
_S = {n: f3 for f3, n in _STORES.items()}
_B = {n: f3 for f3, n in _BRANCH.items()}
_CSRN = {n: f3 for f3, n in _CSR.items()}
_AMON = {n: f5 for f5, n in _AMO.items()}


def encode32(mn, **f):
    """Reference encoder: the inverse of decode32 on its image (asserts operands are in range)."""
    def r(x):
        assert 0 <= x < 32
        return x
    if mn in _R:
        op, f3, f7 = _R[mn]
        return op | r(f['rd']) << 7 | f3 << 12 | r(f['rs1']) << 15 | r(f['rs2']) << 20 | f7 << 25
    if mn in _SH:
        f3, f7 = _SH[mn]
        return 0b0010011 | r(f['rd']) << 7 | f3 << 12 | r(f['rs1']) << 15 | r(f['shamt']) << 20 | f7 << 25
    if mn in _I:
        op, f3 = _I[mn]
        assert -2048 <= f['imm'] <= 2047
        return op | r(f['rd']) << 7 | f3 << 12 | r(f['rs1']) << 15 | (f['imm'] & 0xfff) << 20
    if mn in _S:
        imm = f['imm']
        assert -2048 <= imm <= 2047
        imm &= 0xfff
        return 0b0100011 | (imm & 31) << 7 | _S[mn] << 12 | r(f['rs1']) << 15 | r(f['rs2']) << 20 | (imm >> 5) << 25
    if mn in _B:
        imm = f['imm']
        assert -4096 <= imm <= 4094 and imm % 2 == 0
        imm &= 0x1fff
        return (0b1100011 | bits(imm, 11, 11) << 7 | bits(imm, 4, 1) << 8 | _B[mn] << 12 | r(f['rs1']) << 15
                | r(f['rs2']) << 20 | bits(imm, 10, 5) << 25 | bits(imm, 12, 12) << 31)
    if mn in ('lui', 'auipc'):
        assert -(1 << 19) <= f['imm'] < (1 << 19)
        return (0b0110111 if mn == 'lui' else 0b0010111) | r(f['rd']) << 7 | (f['imm'] & 0xfffff) << 12
    if mn == 'jal':
        imm = f['imm']
        assert -(1 << 20) <= imm < (1 << 20) and imm % 2 == 0
        imm &= 0x1fffff
        return (0b1101111 | r(f['rd']) << 7 | bits(imm, 19, 12) << 12 | bits(imm, 11, 11) << 20
                | bits(imm, 10, 1) << 21 | bits(imm, 20, 20) << 31)
    if mn == 'fence':
        return (0b0001111 | r(f.get('rd', 0)) << 7 | r(f.get('rs1', 0)) << 15 | f['succ'] << 20 | f['pred'] << 24
                | f.get('fm', 0) << 28)
    if mn == 'fence.i':
        return 0b0001111 | 1 << 12 | r(f.get('rd', 0)) << 7 | r(f.get('rs1', 0)) << 15 | f.get('imm', 0) << 20
    if mn == 'ecall':
        return 0x00000073
    if mn == 'ebreak':
        return 0x00100073
    if mn in _CSRN:
        f3 = _CSRN[mn]
        src = f['uimm'] if f3 >= 5 else f['rs1']
        assert 0 <= f['csr'] < 4096
        return 0b1110011 | r(f['rd']) << 7 | f3 << 12 | r(src) << 15 | f['csr'] << 20
    if mn in _AMON:
        rs2 = 0 if mn == 'lr.w' else r(f['rs2'])
        return (0b0101111 | r(f['rd']) << 7 | 2 << 12 | r(f['rs1']) << 15 | rs2 << 20 | f.get('rl', 0) << 25
                | f.get('aq', 0) << 26 | _AMON[mn] << 27)
    raise KeyError(mn)


# ----------------------------------------------------------------------------------------------
# RVC decoder (RV32C, integer subset)
# ----------------------------------------------------------------------------------------------

HINT, RESERVED, ILLEGAL, NOTINT = 'HINT', 'RESERVED', 'ILLEGAL', 'NOT-RV32C-INTEGER'


def decode16(h):
    """halfword -> (mnemonic, fields) for a legal non-hint RV32C integer instruction, else
    (HINT|RESERVED|ILLEGAL|NOT-RV32C-INTEGER, {}), or None when the halfword starts a 32-bit instruction."""
    assert 0 <= h <= 0xffff
    q = h & 3
    if q == 3:
        return None
    f3 = h >> 13
    b12 = bits(h, 12, 12)
    rdf = bits(h, 11, 7)      # full register field
    rs2f = bits(h, 6, 2)
    rdp = bits(h, 4, 2) + 8   # rd' / rs2'
    rs1p = bits(h, 9, 7) + 8  # rs1' / rd'
    imm6 = sext(b12 << 5 | bits(h, 6, 2), 6)
    if q == 0:
        if f3 == 0:
            nz = bits(h, 12, 11) << 4 | bits(h, 10, 7) << 6 | bits(h, 6, 6) << 2 | bits(h, 5, 5) << 3
            if nz == 0:
                return (ILLEGAL, {}) if h == 0 else (RESERVED, {})
            return 'c.addi4spn', dict(rd=rdp, imm=nz)
        if f3 in (2, 6):
            u = bits(h, 12, 10) << 3 | bits(h, 6, 6) << 2 | bits(h, 5, 5) << 6
            if f3 == 2:
                return 'c.lw', dict(rd=rdp, rs1=rs1p, imm=u)
            return 'c.sw', dict(rs1=rs1p, rs2=rdp, imm=u)
        if f3 == 4:
            return RESERVED, {}
        return NOTINT, {}          # c.fld c.flw c.fsd c.fsw
    if q == 1:
        if f3 == 0:
            if rdf == 0:
                return ('c.nop', {}) if imm6 == 0 else (HINT, {})
            return (HINT, {}) if imm6 == 0 else ('c.addi', dict(rd=rdf, imm=imm6))
        if f3 in (1, 5):
            imm = (b12 << 11 | bits(h, 11, 11) << 4 | bits(h, 10, 9) << 8 | bits(h, 8, 8) << 10 | bits(h, 7, 7) << 6
                   | bits(h, 6, 6) << 7 | bits(h, 5, 3) << 1 | bits(h, 2, 2) << 5)
            return ('c.jal' if f3 == 1 else 'c.j'), dict(imm=sext(imm, 12))
        if f3 == 2:
            return (HINT, {}) if rdf == 0 else ('c.li', dict(rd=rdf, imm=imm6))
        if f3 == 3:
            if rdf == 2:
                imm = b12 << 9 | bits(h, 6, 6) << 4 | bits(h, 5, 5) << 6 | bits(h, 4, 3) << 7 | bits(h, 2, 2) << 5
                imm = sext(imm, 10)
                return (RESERVED, {}) if imm == 0 else ('c.addi16sp', dict(imm=imm))
            if imm6 == 0:
                return RESERVED, {}
            return (HINT, {}) if rdf == 0 else ('c.lui', dict(rd=rdf, imm=imm6))
        if f3 == 4:
            sub = bits(h, 11, 10)
            if sub in (0, 1):
                sh = b12 << 5 | bits(h, 6, 2)
                if b12:
                    return RESERVED, {}     # RV32 NSE
                if sh == 0:
                    return HINT, {}
                return ('c.srli' if sub == 0 else 'c.srai'), dict(rd=rs1p, imm=sh)
            if sub == 2:
                return 'c.andi', dict(rd=rs1p, imm=imm6)
            if b12:
                return RESERVED, {}         # c.subw / c.addw are RV64/128 only, rest reserved
            return ('c.sub', 'c.xor', 'c.or', 'c.and')[bits(h, 6, 5)], dict(rd=rs1p, rs2=rdp)
        if f3 in (6, 7):
            imm = b12 << 8 | bits(h, 11, 10) << 3 | bits(h, 6, 5) << 6 | bits(h, 4, 3) << 1 | bits(h, 2, 2) << 5
            return ('c.beqz' if f3 == 6 else 'c.bnez'), dict(rs1=rs1p, imm=sext(imm, 9))
    if q == 2:
        if f3 == 0:
            sh = b12 << 5 | bits(h, 6, 2)
            if b12:
                return RESERVED, {}
            if rdf == 0 or sh == 0:
                return HINT, {}
            return 'c.slli', dict(rd=rdf, imm=sh)
        if f3 == 2:
            u = b12 << 5 | bits(h, 6, 4) << 2 | bits(h, 3, 2) << 6
            return (RESERVED, {}) if rdf == 0 else ('c.lwsp', dict(rd=rdf, imm=u))
        if f3 == 4:
            if b12 == 0:
                if rs2f == 0:
                    return (RESERVED, {}) if rdf == 0 else ('c.jr', dict(rs1=rdf))
                return (HINT, {}) if rdf == 0 else ('c.mv', dict(rd=rdf, rs2=rs2f))
            if rs2f == 0:
                return ('c.ebreak', {}) if rdf == 0 else ('c.jalr', dict(rs1=rdf))
            return (HINT, {}) if rdf == 0 else ('c.add', dict(rd=rdf, rs2=rs2f))
        if f3 == 6:
            u = bits(h, 12, 9) << 2 | bits(h, 8, 7) << 6
            return 'c.swsp', dict(rs2=rs2f, imm=u)
        return NOTINT, {}          # c.fldsp c.flwsp c.fsdsp c.fswsp
    raise AssertionError(h)


def is_legal16(h):
    d = decode16(h)
    return d is not None and d[0].startswith('c.')


def expand(mn, f):
    """RVC instruction -> (base mnemonic, fields): the expansion the C chapter defines."""
    if mn == 'c.addi4spn':
        return 'addi', dict(rd=f['rd'], rs1=2, imm=f['imm'])
    if mn == 'c.lw':
        return 'lw', dict(rd=f['rd'], rs1=f['rs1'], imm=f['imm'])
    if mn == 'c.sw':
        return 'sw', dict(rs1=f['rs1'], rs2=f['rs2'], imm=f['imm'])
    if mn == 'c.nop':
        return 'addi', dict(rd=0, rs1=0, imm=0)
    if mn == 'c.addi':
        return 'addi', dict(rd=f['rd'], rs1=f['rd'], imm=f['imm'])
    if mn == 'c.jal':
        return 'jal', dict(rd=1, imm=f['imm'])
    if mn == 'c.li':
        return 'addi', dict(rd=f['rd'], rs1=0, imm=f['imm'])
    if mn == 'c.addi16sp':
        return 'addi', dict(rd=2, rs1=2, imm=f['imm'])
    if mn == 'c.lui':
        return 'lui', dict(rd=f['rd'], imm=f['imm'])
    if mn in ('c.srli', 'c.srai'):
        return mn[2:], dict(rd=f['rd'], rs1=f['rd'], shamt=f['imm'])
    if mn == 'c.andi':
        return 'andi', dict(rd=f['rd'], rs1=f['rd'], imm=f['imm'])
    if mn in ('c.sub', 'c.xor', 'c.or', 'c.and'):
        return mn[2:], dict(rd=f['rd'], rs1=f['rd'], rs2=f['rs2'])
    if mn == 'c.j':
        return 'jal', dict(rd=0, imm=f['imm'])
    if mn == 'c.beqz':
        return 'beq', dict(rs1=f['rs1'], rs2=0, imm=f['imm'])
    if mn == 'c.bnez':
        return 'bne', dict(rs1=f['rs1'], rs2=0, imm=f['imm'])
    if mn == 'c.slli':
        return 'slli', dict(rd=f['rd'], rs1=f['rd'], shamt=f['imm'])
    if mn == 'c.lwsp':
        return 'lw', dict(rd=f['rd'], rs1=2, imm=f['imm'])
    if mn == 'c.jr':
        return 'jalr', dict(rd=0, rs1=f['rs1'], imm=0)
    if mn == 'c.mv':
        return 'add', dict(rd=f['rd'], rs1=0, rs2=f['rs2'])
    if mn == 'c.ebreak':
        return 'ebreak', {}
    if mn == 'c.jalr':
        return 'jalr', dict(rd=1, rs1=f['rs1'], imm=0)
    if mn == 'c.add':
        return 'add', dict(rd=f['rd'], rs1=f['rd'], rs2=f['rs2'])
    if mn == 'c.swsp':
        return 'sw', dict(rs1=2, rs2=f['rs2'], imm=f['imm'])
    raise KeyError(mn)


def expand16(h):
    """legal RVC halfword -> the 32-bit word of its expansion (None when not a legal instruction)."""
    d = decode16(h)
    if d is None or not d[0].startswith('c.'):
        return None
    mn, f = expand(*d)
    return encode32(mn, **f)


_ELIGIBLE = None


def eligible_words():
    """E = { expand16(h) : h legal non-hint RV32C integer halfword }  (word -> list of halfwords)."""
    global _ELIGIBLE
    if _ELIGIBLE is None:
        e = {}
        for h in range(0x10000):
            w = expand16(h)
            if w is not None:
                e.setdefault(w, []).append(h)
        _ELIGIBLE = e
    return _ELIGIBLE


# ----------------------------------------------------------------------------------------------
# reference RVC encoder (self-test round trip only)
# ----------------------------------------------------------------------------------------------

def encode16(mn, **f):
    for h in _C_INDEX().get(mn, ()):  # small per-mnemonic candidate lists
        if decode16(h)[1] == f:
            return h
    raise ValueError((mn, f))


_CIDX = None


def _C_INDEX():
    global _CIDX
    if _CIDX is None:
        idx = {}
        for h in range(0x10000):
            d = decode16(h)
            if d is not None and d[0].startswith('c.'):
                idx.setdefault(d[0], []).append(h)
        _CIDX = idx
    return _CIDX


# ----------------------------------------------------------------------------------------------
# instruction stream helpers
# ----------------------------------------------------------------------------------------------

def fetch(code, off):
    """-> (size, kind, mnemonic, fields) at byte offset `off` of `code`; kind in {'32','16','bad'}.
    For 16-bit units mnemonic/fields are those of the *expansion*; cmn is kept in fields['_c']."""
    if off + 2 > len(code):
        return 0, 'bad', 'EOF', {}
    h = code[off] | code[off + 1] << 8
    if h & 3 != 3:
        d = decode16(h)
        if not d[0].startswith('c.'):
            return 2, 'bad', d[0], {}
        mn, f = expand(*d)
        f = dict(f)
        f['_c'] = d[0]
        return 2, '16', mn, f
    if off + 4 > len(code):
        return 0, 'bad', 'EOF', {}
    w = h | code[off + 2] << 16 | code[off + 3] << 24
    d = decode32(w)
    if d is None:
        return 4, 'bad', 'UNDEF', {}
    return 4, '32', d[0], d[1]


# ----------------------------------------------------------------------------------------------
# one-step interpreter (integer subset; memory is a sparse dict of bytes, default 0)
# ----------------------------------------------------------------------------------------------

class Unsupported(Exception):
    pass


class Machine:
    def __init__(self, regs=None, pc=0, mem=None):
        self.x = list(regs) if regs is not None else [0] * 32
        self.x[0] = 0
        self.pc = pc
        self.mem = dict(mem or {})
        self.trace = []      # ('r', reg) ('w', reg, val) ('ld', addr, n) ('st', addr, n, val)

    def rd(self, r):
        if r:
            self.trace.append(('r', r))
        return self.x[r]

    def wr(self, r, v):
        v &= M32
        self.trace.append(('w', r, v))
        if r:
            self.x[r] = v

    def load(self, a, n):
        a &= M32
        self.trace.append(('ld', a, n))
        return sum(self.mem.get((a + i) & M32, 0) << (8 * i) for i in range(n))

    def store(self, a, n, v):
        a &= M32
        self.trace.append(('st', a, n, v & ((1 << 8 * n) - 1)))
        for i in range(n):
            self.mem[(a + i) & M32] = (v >> (8 * i)) & 0xff

    def exec(self, size, mn, f):
        """execute one decoded instruction of byte size `size` at self.pc"""
        pc = self.pc
        nxt = (pc + size) & M32
        s = lambda v: sext(v, 32)
        if mn == 'lui':
            self.wr(f['rd'], f['imm'] << 12)
        elif mn == 'auipc':
            self.wr(f['rd'], pc + (f['imm'] << 12))
        elif mn == 'jal':
            self.wr(f['rd'], nxt)
            nxt = (pc + f['imm']) & M32
        elif mn == 'jalr':
            t = (self.rd(f['rs1']) + f['imm']) & ~1 & M32
            self.wr(f['rd'], nxt)
            nxt = t
        elif mn in _B:
            a, b = self.rd(f['rs1']), self.rd(f['rs2'])
            take = {'beq': a == b, 'bne': a != b, 'blt': s(a) < s(b), 'bge': s(a) >= s(b),
                    'bltu': a < b, 'bgeu': a >= b}[mn]
            if take:
                nxt = (pc + f['imm']) & M32
        elif mn in ('lb', 'lh', 'lw', 'lbu', 'lhu'):
            n = {'lb': 1, 'lbu': 1, 'lh': 2, 'lhu': 2, 'lw': 4}[mn]
            v = self.load(self.rd(f['rs1']) + f['imm'], n)
            if mn in ('lb', 'lh'):
                v = sext(v, 8 * n)
            self.wr(f['rd'], v)
        elif mn in _S:
            n = {'sb': 1, 'sh': 2, 'sw': 4}[mn]
            a = self.rd(f['rs1']) + f['imm']
            self.store(a, n, self.rd(f['rs2']))
        elif mn in _OPIMM_N:
            a, i = self.rd(f['rs1']), f['imm']
            v = {'addi': a + i, 'slti': int(s(a) < i), 'sltiu': int(a < (i & M32)), 'xori': a ^ (i & M32),
                 'ori': a | (i & M32), 'andi': a & (i & M32)}[mn]
            self.wr(f['rd'], v)
        elif mn in _SH:
            a, sh = self.rd(f['rs1']), f['shamt']
            v = {'slli': a << sh, 'srli': a >> sh, 'srai': s(a) >> sh}[mn]
            self.wr(f['rd'], v)
        elif mn in _R:
            a, b = self.rd(f['rs1']), self.rd(f['rs2'])
            sh = b & 31
            if mn == 'add': v = a + b
            elif mn == 'sub': v = a - b
            elif mn == 'sll': v = a << sh
            elif mn == 'slt': v = int(s(a) < s(b))
            elif mn == 'sltu': v = int(a < b)
            elif mn == 'xor': v = a ^ b
            elif mn == 'srl': v = a >> sh
            elif mn == 'sra': v = s(a) >> sh
            elif mn == 'or': v = a | b
            elif mn == 'and': v = a & b
            elif mn == 'mul': v = a * b
            elif mn == 'mulh': v = (s(a) * s(b)) >> 32
            elif mn == 'mulhsu': v = (s(a) * b) >> 32
            elif mn == 'mulhu': v = (a * b) >> 32
            elif mn == 'div':
                v = -1 if b == 0 else (s(a) if (s(a) == -2**31 and s(b) == -1) else _tdiv(s(a), s(b)))
            elif mn == 'divu': v = M32 if b == 0 else a // b
            elif mn == 'rem':
                v = a if b == 0 else (0 if (s(a) == -2**31 and s(b) == -1) else s(a) - s(b) * _tdiv(s(a), s(b)))
            elif mn == 'remu': v = a if b == 0 else a % b
            self.wr(f['rd'], v)
        elif mn in ('fence', 'fence.i'):
            pass
        else:
            raise Unsupported(mn)
        self.pc = nxt


def _tdiv(a, b):
    q = abs(a) // abs(b)
    return q if (a < 0) == (b < 0) else -q


def run(code, regs=None, pc=0, base=0, steps=1, stop_outside=True):
    """Execute up to `steps` instructions of `code` (loaded at `base`) from `pc`; returns the Machine.
    Raises ValueError on an undecodable / illegal unit."""
    m = Machine(regs, pc)
    for _ in range(steps):
        off = m.pc - base
        if stop_outside and not (0 <= off < len(code)):
            break
        size, kind, mn, f = fetch(code, off)
        if kind == 'bad':
            raise ValueError('illegal instruction %s at %#x' % (mn, m.pc))
        m.exec(size, mn, f)
    return m


# ----------------------------------------------------------------------------------------------
# text rendering in bronzebeard syntax (canonical text of a decoded instruction)
# ----------------------------------------------------------------------------------------------

def text16(mn, f):
    x = lambda r: 'x%d' % r
    if mn in ('c.nop', 'c.ebreak'):
        return mn
    if mn in ('c.addi4spn', 'c.addi', 'c.li', 'c.lui', 'c.srli', 'c.srai', 'c.andi', 'c.slli', 'c.lwsp'):
        return '%s %s, %d' % (mn, x(f['rd']), f['imm'])
    if mn == 'c.lw':
        return 'c.lw %s, %s, %d' % (x(f['rd']), x(f['rs1']), f['imm'])
    if mn == 'c.sw':
        return 'c.sw %s, %s, %d' % (x(f['rs1']), x(f['rs2']), f['imm'])
    if mn in ('c.jal', 'c.j', 'c.addi16sp'):
        return '%s %d' % (mn, f['imm'])
    if mn in ('c.sub', 'c.xor', 'c.or', 'c.and', 'c.mv', 'c.add'):
        return '%s %s, %s' % (mn, x(f['rd']), x(f['rs2']))
    if mn in ('c.beqz', 'c.bnez'):
        return '%s %s, %d' % (mn, x(f['rs1']), f['imm'])
    if mn in ('c.jr', 'c.jalr'):
        return '%s %s' % (mn, x(f['rs1']))
    if mn == 'c.swsp':
        return 'c.swsp %s, %d' % (x(f['rs2']), f['imm'])
    raise KeyError(mn)


def text32(mn, f):
    """bronzebeard source text for a decoded 32-bit instruction (operand order per docs/instruction_reference.rst)"""
    x = lambda r: 'x%d' % r
    if mn in _R:
        return '%s %s, %s, %s' % (mn, x(f['rd']), x(f['rs1']), x(f['rs2']))
    if mn in _SH:
        return '%s %s, %s, %d' % (mn, x(f['rd']), x(f['rs1']), f['shamt'])
    if mn in _I:
        return '%s %s, %s, %d' % (mn, x(f['rd']), x(f['rs1']), f['imm'])
    if mn in _S or mn in _B:
        return '%s %s, %s, %d' % (mn, x(f['rs1']), x(f['rs2']), f['imm'])
    if mn in ('lui', 'auipc', 'jal'):
        return '%s %s, %d' % (mn, x(f['rd']), f['imm'])
    if mn == 'fence':
        return 'fence %d, %d' % (f['succ'], f['pred'])
    if mn in ('fence.i', 'ecall', 'ebreak'):
        return mn
    if mn in _CSRN:
        src = f['uimm'] if 'uimm' in f else f['rs1']
        return '%s %s, %s, %d' % (mn, x(f['rd']), src if 'uimm' in f else x(src), sext(f['csr'], 12))
    if mn == 'lr.w':
        return 'lr.w %s, %s, %d, %d' % (x(f['rd']), x(f['rs1']), f['aq'], f['rl'])
    if mn in _AMON:
        return '%s %s, %s, %s, %d, %d' % (mn, x(f['rd']), x(f['rs1']), x(f['rs2']), f['aq'], f['rl'])
    raise KeyError(mn)
