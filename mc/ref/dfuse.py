"""Environment model for bronzebeard.dfu: a DfuSe device (DFU 1.1 state machine + ST DfuSe commands) behind a fake
`usb` package, a virtual clock, an in-memory firmware file and the stateless choice explorer that steers it.

The device is an explicit state machine written from the DFU 1.1 specification (states dfuIDLE, dfuDNLOAD-SYNC,
dfuDNBUSY, dfuDNLOAD-IDLE, dfuERROR; requests DNLOAD, GETSTATUS, CLRSTATUS) and ST's DfuSe extension (command block
wValue = 0: 0x41 erase page, 0x21 set address pointer; data block wValue >= 2 written at pointer + (wValue - 2) *
transfer size).  NOR flash semantics: erase sets a page to 0xFF, programming ANDs.  Wherever the specification leaves
the device a choice (how long an operation keeps it busy, which poll delay it asks for, whether it starts in the
error state, whether an operation fails) the model asks the explorer.  A monitor inside the device records every
protocol obligation of the HOST that is broken.
"""
import contextlib
import io
import os
import struct
import sys
import types

BASE = 0x08000000
PAGE = 1024
IDLE, DNLOAD_SYNC, DNBUSY, DNLOAD_IDLE, ERROR = 2, 3, 4, 5, 10
DNLOAD, GETSTATUS, CLRSTATUS = 1, 3, 4
SERIAL = {16: '4', 32: '6', 64: '8', 128: 'B'}
POLLS = [5, 0, 0x000100, 0x010000]      # ms; distinct bytes so that a byte-order slip is visible; default first
BUSY = [1, 0, 2]                        # how many GETSTATUS answers say dfuDNBUSY; default first


class USBError(IOError):
    pass


class Chooser:
    """replays a prefix of choices, answers 0 (the default) afterwards and records every choice point"""

    def __init__(self, prefix=()):
        self.prefix = list(prefix)
        self.points = []           # (arity, tag, chosen)

    def choose(self, n, tag):
        i = len(self.points)
        c = self.prefix[i] if i < len(self.prefix) else 0
        if not 0 <= c < n:
            raise RuntimeError('NONDETERMINISM: choice %d out of range %d at point %d (%s)' % (c, n, i, tag))
        self.points.append((n, tag, c))
        return c

    def choices(self):
        return [p[2] for p in self.points]


class Clock:
    def __init__(self):
        self.us = 0
        self.sleeps = []

    def sleep(self, seconds):
        self.us += int(round(seconds * 1e6))
        self.sleeps.append(seconds)

    def time(self):
        return self.us / 1e6


class Device:
    def __init__(self, pages, chooser, clock, faults=None, lenient=False, uniform=None):
        self.pages = pages
        self.size = pages * PAGE
        self.ch = chooser
        self.clock = clock
        self.faults = dict(faults or {})      # {(kind, index): status code}
        self.lenient = lenient                # a device that keeps accepting requests after reporting an error (not per spec)
        self.uniform = uniform                # (busy count, poll ms) for every operation, bypassing the chooser
        self.init = bytes(((i * 5 + 3) & 0x7f) for i in range(self.size))
        self.flash = bytearray(self.init)
        self.state = ERROR if (uniform is None and chooser.choose(2, 'start-in-error')) else IDLE
        self.status = 14 if self.state == ERROR else 0
        self.ptr = None
        self.pending = None
        self.busy_left = 0
        self.busy_until = 0
        self.counts = {'erase': 0, 'setaddr': 0, 'write': 0}
        self.erased = set()                   # pages erased and not yet written
        self.touched_erase = []
        self.touched_write = []
        self.requests = []
        self.violations = []
        self.dnloads = 0
        self.trace = []
        self.serial_number = ('3C%sJ' % SERIAL[pages]).encode('ascii').decode('utf-16-le')

    # ------------------------------------------------------------------ monitor
    def _arrive(self, what):
        if self.clock.us < self.busy_until:
            self.violations.append('%s issued %d us before the requested poll delay had elapsed' % (what, self.busy_until - self.clock.us))
        self.requests.append(what)

    # ------------------------------------------------------------------ USB surface
    def ctrl_transfer(self, bmRequestType, bRequest, wValue=0, wIndex=0, data_or_wLength=None, timeout=None):
        if bRequest == DNLOAD:
            return self._dnload(wValue, bytes(data_or_wLength))
        if bRequest == GETSTATUS:
            return self._getstatus(data_or_wLength)
        if bRequest == CLRSTATUS:
            self._arrive('CLRSTATUS')
            self.trace.append(('clrstatus', self.state))
            if self.state == ERROR:
                self.state, self.status = IDLE, 0
            return 0
        self.violations.append('unexpected request %r' % bRequest)
        raise USBError('stall')

    def _dnload(self, wvalue, data):
        self._arrive('DNLOAD')
        self.dnloads += 1
        if self.state == ERROR and not self.lenient:
            self.trace.append(('dnload-stalled',))
            raise USBError('stall: device is in dfuERROR')
        if self.state not in (IDLE, DNLOAD_IDLE, ERROR):
            self.violations.append('DNLOAD in state %d' % self.state)
            raise USBError('stall')
        if self.state == ERROR:
            self.status = 0            # lenient device: the error condition clears itself with the next download
        if wvalue == 0:
            if len(data) == 5 and data[0] == 0x41:
                kind, arg = 'erase', struct.unpack('<I', data[1:])[0]
            elif len(data) == 5 and data[0] == 0x21:
                kind, arg = 'setaddr', struct.unpack('<I', data[1:])[0]
            else:
                self.violations.append('unknown / malformed DfuSe command %s' % data[:8].hex())
                kind, arg = 'bad', None
        elif wvalue >= 2:
            kind, arg = 'write', (wvalue, data)
        else:
            self.violations.append('DNLOAD with wValue=1')
            kind, arg = 'bad', None
        self.pending = (kind, arg)
        self.state = DNLOAD_SYNC
        if self.uniform is not None:
            self.busy_left, self.poll = self.uniform
        else:
            self.busy_left = BUSY[self.ch.choose(len(BUSY), 'busy-count:%s' % kind)]
        self.trace.append(('dnload', kind, self.counts['erase'], self.counts['write']))
        return len(data)

    def _poll(self, tag):
        if self.uniform is not None:
            return self.uniform[1]
        return POLLS[self.ch.choose(len(POLLS), tag)]

    def _getstatus(self, wlength):
        self._arrive('GETSTATUS')
        if wlength != 6:
            self.violations.append('GETSTATUS with wLength=%r' % wlength)
        poll = 0
        if self.state in (DNLOAD_SYNC, DNBUSY):
            if self.busy_left > 0:
                self.busy_left -= 1
                self.state = DNBUSY
                poll = self._poll('poll:busy')
            else:
                self._execute()
        self.busy_until = self.clock.us + poll * 1000
        self.trace.append(('getstatus', self.state, poll, self.counts['erase'], self.counts['setaddr'], self.counts['write'], self.busy_left))
        return bytes([self.status, poll & 0xff, (poll >> 8) & 0xff, (poll >> 16) & 0xff, self.state, 0])

    # ------------------------------------------------------------------ operations
    def _execute(self):
        kind, arg = self.pending
        self.pending = None
        idx = self.counts.get(kind, 0)
        if kind in self.counts:
            self.counts[kind] += 1
        fault = self.faults.get((kind, idx))
        if fault is not None:
            self.state, self.status = ERROR, fault
            return
        if kind == 'erase':
            self._check_addr(arg, 'erase')
            if BASE <= arg < BASE + self.size and (arg - BASE) % PAGE == 0:
                p = (arg - BASE) // PAGE
                self.flash[p * PAGE:(p + 1) * PAGE] = b'\xff' * PAGE
                self.erased.add(p)
                self.touched_erase.append(p)
        elif kind == 'setaddr':
            self._check_addr(arg, 'set-address')
            self.ptr = arg
        elif kind == 'write':
            wvalue, data = arg
            if self.ptr is None:
                self.violations.append('write before any set-address')
                addr = BASE
            else:
                addr = self.ptr + (wvalue - 2) * PAGE
            self._check_addr(addr, 'write')
            if len(data) > PAGE:
                self.violations.append('write of %d bytes exceeds the transfer size' % len(data))
            if BASE <= addr and addr + len(data) <= BASE + self.size:
                p = (addr - BASE) // PAGE
                if p not in self.erased:
                    self.violations.append('page %d written without having been erased since its last write' % p)
                self.erased.discard(p)
                self.touched_write.append(p)
                off = addr - BASE
                for i, b in enumerate(data):
                    self.flash[off + i] &= b
        self.state = DNLOAD_IDLE

    def _check_addr(self, addr, what):
        if not (BASE <= addr < BASE + self.size):
            self.violations.append('%s address %#x outside the flash' % (what, addr))
        elif (addr - BASE) % PAGE:
            self.violations.append('%s address %#x not page aligned' % (what, addr))


def firmware(n, kind='ramp'):
    """image of n bytes.  ramp: no 0x00 byte anywhere (so padding is visible); zeros / ff: constant images (an erased page reads 0xFF, the padding is 0x00);
    zpage / ffpage: the ramp with every second page (and the tail) replaced by 0x00 / 0xFF; lastzero: the ramp ending in one 0x00 byte"""
    ramp = bytes(((i * 7 + 13) % 255) + 1 for i in range(n))
    if kind == 'ramp':
        return ramp
    if kind in ('zeros', 'ff'):
        return (b'\x00' if kind == 'zeros' else b'\xff') * n
    if kind in ('zpage', 'ffpage'):
        fill = 0 if kind == 'zpage' else 0xff
        return bytes(fill if (i // PAGE) % 2 == 1 or i >= (n // PAGE) * PAGE else b for i, b in enumerate(ramp))
    if kind == 'lastzero':
        return ramp[:-1] + b'\x00' if n else ramp
    raise KeyError(kind)


_FAKE = {}


def install_fake_usb():
    """fake `usb`, `usb.core`, `usb.backend`, `usb.backend.libusb1` BEFORE bronzebeard.dfu is imported"""
    if _FAKE:
        return _FAKE['dfu']
    usb = types.ModuleType('usb')
    core = types.ModuleType('usb.core')
    backend = types.ModuleType('usb.backend')
    libusb1 = types.ModuleType('usb.backend.libusb1')
    core.USBError = USBError
    core.find = lambda **kw: _FAKE.get('device')
    libusb1.get_backend = lambda *a, **kw: object()
    usb.core, usb.backend, backend.libusb1 = core, backend, libusb1
    for name, mod in (('usb', usb), ('usb.core', core), ('usb.backend', backend), ('usb.backend.libusb1', libusb1)):
        sys.modules[name] = mod
    sys.modules.pop('bronzebeard.dfu', None)
    from mc import kernel
    if kernel.REPO not in sys.path:
        sys.path.insert(0, kernel.REPO)
    import bronzebeard.dfu as dfu
    assert dfu.__file__.startswith(kernel.REPO + '/'), dfu.__file__
    _FAKE['dfu'] = dfu
    return dfu


class Run:
    pass


def run_host(pages, fw, prefix=(), faults=None, lenient=False, uniform=None, device_id='28e9:0189', via='file'):
    """one complete execution of the real dfu.cli_main() against the device model -> Run"""
    dfu = install_fake_usb()
    ch = Chooser(prefix)
    clock = Clock()
    dev = Device(pages, ch, clock, faults, lenient, uniform)
    _FAKE['device'] = dev
    # the host's clock: `time.sleep` however it is imported (module attribute, `from time import sleep`, ...) is the virtual clock during the run
    import time as _time
    real_sleep = _time.sleep
    _time.sleep = clock.sleep
    if getattr(dfu, 'sleep', None) is real_sleep:
        dfu.sleep = clock.sleep
    # the firmware is a real file (however the host chooses to read it), written once per content
    from mc import kernel
    d = os.path.join(kernel.scratch('_dfu'), 'fw')
    os.makedirs(d, exist_ok=True)
    import hashlib
    path = os.path.join(d, 'fw_%d_%s.bin' % (len(fw), hashlib.sha1(fw).hexdigest()[:10]))
    if not os.path.exists(path) or os.path.getsize(path) != len(fw):
        with open(path, 'wb') as f:
            f.write(fw)
    feeder = None
    if via == 'fifo':
        # the firmware arrives through a named pipe (what `bronzebeard-dfu id <(generator)` hands over): its size is only known once it has been read
        import subprocess
        fifo = os.path.join(d, 'fw_%d.pipe' % os.getpid())
        if os.path.exists(fifo):
            os.remove(fifo)
        os.mkfifo(fifo)
        feeder = subprocess.Popen(['/bin/sh', '-c', 'exec cat "$0" > "$1"', path, fifo], stdin=subprocess.DEVNULL, stdout=subprocess.DEVNULL, stderr=subprocess.DEVNULL)
        path = fifo
    out = io.StringIO()
    old_argv = sys.argv
    sys.argv = ['bronzebeard-dfu', device_id, path]
    r = Run()
    r.exc = None
    try:
        with contextlib.redirect_stdout(out), contextlib.redirect_stderr(out):
            try:
                dfu.cli_main()
                r.status = 0
            except SystemExit as e:
                r.status = 0 if e.code is None else (e.code if isinstance(e.code, int) else 1)
                if e.code is not None and not isinstance(e.code, int):
                    out.write(str(e.code) + '\n')
            except BaseException as e:          # a real process prints a traceback and exits 1
                r.status = 1
                r.exc = e
                out.write('%s: %s\n' % (type(e).__name__, e))
    finally:
        sys.argv = old_argv
        _time.sleep = real_sleep
        if feeder is not None:
            if feeder.poll() is None:
                feeder.kill()           # the host never opened the pipe (or stopped reading)
            feeder.wait()
            os.remove(path)
    r.dev, r.chooser, r.clock, r.stdout = dev, ch, clock, out.getvalue()
    r.done = 'done!' in r.stdout
    return r
