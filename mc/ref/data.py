"""Reference data-directive encoder, escape processor and Intel-HEX reader (DESIGN.md 2.4); independent of asm.py."""

SEQ_WIDTH = {'bytes': 1, 'shorts': 2, 'ints': 4, 'longs': 4, 'longlongs': 8}
SHORT_WIDTH = {'db': 1, 'dh': 2, 'dw': 4, 'dd': 8}
PACK = {'b': (1, True), 'B': (1, False), 'h': (2, True), 'H': (2, False), 'i': (4, True), 'I': (4, False),
        'l': (4, True), 'L': (4, False), 'q': (8, True), 'Q': (8, False)}


def int_bytes(v, width, order='little'):
    """two's complement / unsigned little-endian bytes of v in `width` bytes; None when v does not fit
    (documented signedness inference: negative -> signed range, otherwise unsigned range)"""
    if not -(1 << (8 * width - 1)) <= v < (1 << (8 * width)):
        return None
    return (v % (1 << (8 * width))).to_bytes(width, order)


def pack_bytes(fmt, v):
    """struct-style format '<c' / '>c'; None when v is outside the format's own range"""
    order = {'<': 'little', '>': 'big'}[fmt[0]]
    width, signed = PACK[fmt[1]]
    lo, hi = (-(1 << (8 * width - 1)), (1 << (8 * width - 1)) - 1) if signed else (0, (1 << (8 * width)) - 1)
    if not lo <= v <= hi:
        return None
    return (v % (1 << (8 * width))).to_bytes(width, order)


ESCAPES = {'\\': '\\', 'n': '\n', 't': '\t', 'r': '\r', '0': '\0', "'": "'", '"': '"'}


def unescape(text):
    """backslash-escape processing for the documented escapes (\\\\ \\n \\t \\r \\0 \\' \\" \\xNN \\uNNNN)"""
    out, i = [], 0
    while i < len(text):
        c = text[i]
        if c != '\\':
            out.append(c)
            i += 1
            continue
        n = text[i + 1]
        if n in ESCAPES:
            out.append(ESCAPES[n])
            i += 2
        elif n == 'x':
            out.append(chr(int(text[i + 2:i + 4], 16)))
            i += 4
        elif n == 'u':
            out.append(chr(int(text[i + 2:i + 6], 16)))
            i += 6
        else:
            raise ValueError('escape outside the reference alphabet: ' + text[i:i + 2])
    return ''.join(out)


def string_bytes(text):
    return unescape(text).encode('utf-8')


def read_ihex(text):
    """Intel HEX -> {address: byte}; verifies checksums and record structure (types 00 01 02 04)"""
    mem, base, eof = {}, 0, False
    for ln, line in enumerate(text.splitlines(), 1):
        line = line.strip()
        if not line:
            continue
        if eof:
            raise ValueError('record after EOF at line %d' % ln)
        if line[0] != ':':
            raise ValueError('line %d does not start with a colon' % ln)
        raw = bytes.fromhex(line[1:])
        if sum(raw) & 0xff:
            raise ValueError('bad checksum at line %d' % ln)
        n, addr, typ, payload = raw[0], raw[1] << 8 | raw[2], raw[3], raw[4:-1]
        if len(payload) != n:
            raise ValueError('bad length at line %d' % ln)
        if typ == 0:
            for i, b in enumerate(payload):
                mem[base + addr + i] = b
        elif typ == 1:
            eof = True
        elif typ == 2:
            base = (payload[0] << 8 | payload[1]) << 4
        elif typ == 4:
            base = (payload[0] << 8 | payload[1]) << 16
        elif typ in (3, 5):
            pass
        else:
            raise ValueError('unknown record type %d at line %d' % (typ, ln))
    if not eof:
        raise ValueError('missing EOF record')
    return mem
