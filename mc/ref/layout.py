"""Source-item model and the sequential layout walker (DESIGN.md 2.3).

The driver generates programs as lists of *items* (one source line each) and therefore knows what every line means.
`walk(items, out)` recomputes, from the emitted bytes alone, where every item starts and how many bytes it occupies
(instruction length from the ISA's own length bits, data sizes from the documentation, padding from the alignment
rule) and then checks each item's meaning at that layout: decoded instruction = the one named, transfer target =
label, li value / call target on the reference ISS, data bytes, zero minimal padding.  It never reads the assembler's
label table, positions or item classes.
"""
import struct

from mc.ref import rv32

M32 = 0xffffffff

# ------------------------------------------------------------------------------------------
# immediate specifications:  int | ('label', L) | ('offset', L) | ('position', L, base) | ('hi', s) | ('lo', s)
#                            | ('add', s, k)
# ------------------------------------------------------------------------------------------


def ev(spec, labels, pos):
    if isinstance(spec, int):
        return spec
    t = spec[0]
    if t == 'label':
        return labels[spec[1]]
    if t == 'offset':
        return labels[spec[1]] - pos
    if t == 'position':
        return spec[2] + labels[spec[1]]
    if t == 'add':
        return ev(spec[1], labels, pos) + spec[2]
    if t == 'rsub':
        return spec[1] - ev(spec[2], labels, pos)       # k - expr: a value that GROWS when labels shrink
    if t == 'diff':
        return labels[spec[1]] - labels[spec[2]] + (spec[3] if len(spec) > 3 else 0)       # B - A (+ k): the size of a stretch of code / data
    v = ev(spec[1], labels, pos)
    if t == 'hi':
        return rv32.sext(((v + 0x800) >> 12) & 0xfffff, 20)
    if t == 'lo':
        return rv32.sext(v & 0xfff, 12)
    raise KeyError(t)


def spec_text(spec):
    if isinstance(spec, int):
        return str(spec)
    t = spec[0]
    if t == 'label':
        return spec[1]
    if t == 'offset':
        return '%%offset(%s)' % spec[1]
    if t == 'position':
        return '%%position(%s, %s)' % (spec[1], spec[3] if len(spec) > 3 else '%d' % spec[2])     # optional 4th element: the base written as an expression
    if t == 'add':
        return '%s + %d' % (spec_text(spec[1]), spec[2])
    if t == 'rsub':
        return '%d - %s' % (spec[1], spec_text(spec[2]))
    if t == 'diff':
        return '%s - %s' % (spec[1], spec[2]) + (' + %d' % spec[3] if len(spec) > 3 and spec[3] else '')
    return '%%%s(%s)' % (t, spec_text(spec[1]))


def spec_labels(spec):
    if isinstance(spec, int):
        return []
    if spec[0] in ('label', 'offset', 'position'):
        return [spec[1]]
    if spec[0] == 'rsub':
        return spec_labels(spec[2])
    if spec[0] == 'diff':
        return [spec[1], spec[2]]
    return spec_labels(spec[1])


def depends_on_label(spec):
    return bool(spec_labels(spec))


# ------------------------------------------------------------------------------------------
# items
# ------------------------------------------------------------------------------------------

def label(name):
    return dict(k='label', name=name, text=name + ':')


def inst(mn, text=None, **f):
    """a (pseudo-)instruction of fixed meaning: mn/fields are those the reference decoder reports; the immediate
    (role 'imm') may be an immediate specification"""
    it = dict(k='inst', mn=mn, f=f)
    if text is None:
        ff = dict(f)
        if 'imm' in ff and not isinstance(ff['imm'], int):
            spec = ff['imm']
            ff['imm'] = 0
            base = rv32.text32(mn, ff)
            text = base.rsplit(',', 1)[0] + ', ' + (spec[1] if (spec[0] == 'offset' and mn in rv32._B or spec[0] == 'offset' and mn == 'jal') else spec_text(spec))
        else:
            text = rv32.text32(mn, ff)
    it['text'] = text
    return it


def cinst(mn, text=None, **f):
    it = dict(k='cinst', mn=mn, f=f)
    if text is None:
        ff = dict(f)
        if 'imm' in ff and not isinstance(ff['imm'], int):
            spec = ff['imm']
            ff['imm'] = 0
            text = rv32.text16(mn, ff).rsplit(' ', 1)[0] + ' ' + spec_text(spec)
        else:
            text = rv32.text16(mn, ff)
    it['text'] = text
    return it


def li(rd, spec):
    return dict(k='li', rd=rd, spec=spec, text='li x%d, %s' % (rd, spec_text(spec)))


def call(name, tail=False):
    return dict(k='tail' if tail else 'call', target=name, text='%s %s' % ('tail' if tail else 'call', name))


def data(text, payload):
    """payload: bytes, or (fmt, spec) for a label-valued value packed with struct format fmt"""
    return dict(k='data', payload=payload, text=text)


def align(n):
    return dict(k='align', n=n, text='align %d' % n)


def gap(n, ch='a'):
    return data('string ' + ch * n, (ch * n).encode())


def const(name, expr, value=None):
    """a constant definition; when `value` is given the name can also be used like a label (an absolute position)"""
    it = dict(k='const', text='%s = %s' % (name, expr))
    if value is not None:
        it.update(name=name, value=value)
    return it


def source(items):
    return '\n'.join(it['text'] for it in items) + '\n'


def pseudo(name, *ops):
    """a pseudo-instruction judged by its documented *effect* (C05), operands = register numbers / ints / label names"""
    def t(o):
        return o if isinstance(o, str) else str(o)
    regpos = {'li': 1, 'mv': 2, 'not': 2, 'neg': 2, 'seqz': 2, 'snez': 2, 'sltz': 2, 'sgtz': 2, 'beqz': 1, 'bnez': 1, 'blez': 1, 'bgez': 1, 'bltz': 1,
              'bgtz': 1, 'bgt': 2, 'ble': 2, 'bgtu': 2, 'bleu': 2, 'jr': 1, 'jalr': 1}.get(name, 0)
    toks = ['x%d' % o if i < regpos else t(o) for i, o in enumerate(ops)]
    return dict(k='pseudo', name=name, ops=list(ops), text=(name + ' ' + ', '.join(toks)).strip())


def refs(it):
    k = it['k']
    if k == 'pseudo':
        return [o for o in it['ops'] if isinstance(o, str)]
    if k in ('inst', 'cinst') and 'imm' in it['f']:
        return spec_labels(it['f']['imm'])
    if k == 'li':
        return spec_labels(it['spec'])
    if k in ('call', 'tail'):
        return [it['target']]
    if k == 'data' and not isinstance(it['payload'], (bytes, bytearray)):
        return spec_labels(it['payload'][1])
    return []


def is_transfer(it):
    return it['k'] in ('call', 'tail') or (it['k'] in ('inst', 'cinst') and it['mn'] in TRANSFER_MN
                                            and not isinstance(it['f'].get('imm', 0), int))


TRANSFER_MN = set(rv32._B) | {'jal', 'c.j', 'c.jal', 'c.beqz', 'c.bnez'}

# ------------------------------------------------------------------------------------------
# the walk
# ------------------------------------------------------------------------------------------


def data_size(it):
    p = it['payload']
    return len(p) if isinstance(p, (bytes, bytearray)) else struct.calcsize(p[0])


def _units(out, cur, n):
    """fetch n consecutive instruction units at cur -> (total size, [unit...]) or None"""
    us, c = [], cur
    for _ in range(n):
        size, kind, mn, f = rv32.fetch(out, c)
        if size == 0:
            return None
        us.append((c, size, kind, mn, f))
        c += size
    return c - cur, us


def _candidates(it, out, cur, compress):
    k = it['k']
    if k in ('label', 'const'):
        yield 0, []
    elif k == 'data':
        n = data_size(it)
        if cur + n <= len(out):
            yield n, []
    elif k == 'align':
        n = (-cur) % it['n']
        if cur + n <= len(out):
            yield n, []
    elif k in ('inst', 'cinst'):
        u = _units(out, cur, 1)
        if u:
            yield u
    elif k == 'li':
        u2 = _units(out, cur, 2)
        u1 = _units(out, cur, 1)
        two = bool(u2) and u2[1][0][3] == 'lui'
        # the natural reading first: lui + an instruction that updates the same register is one li; a lone lui (the documented single-instruction form for
        # values with zero low bits) otherwise - the other reading stays available to the backtracking search
        paired = two and u2[1][1][2] != 'bad' and u2[1][1][4].get('rd') == u2[1][0][4].get('rd') and u2[1][1][4].get('rs1', u2[1][1][4].get('rs2')) in (u2[1][0][4].get('rd'), 0)
        if two and paired:
            yield u2
        if u1:
            yield u1
        if two and not paired:
            yield u2
    elif k == 'pseudo':
        # a pseudo-instruction of unspecified expansion: one unit, or two when the first is lui / auipc
        u1 = _units(out, cur, 1)
        u2 = None
        if u1 and u1[1][0][3] in ('lui', 'auipc') and it['name'] in ('li', 'call', 'tail'):
            u2 = _units(out, cur, 2)
        paired = bool(u2) and u2[1][1][2] != 'bad' and (u1[1][0][3] == 'auipc' or (u2[1][1][4].get('rd') == u2[1][0][4].get('rd')
                                                                                    and u2[1][1][4].get('rs1', u2[1][1][4].get('rs2')) in (u2[1][0][4].get('rd'), 0)))
        if u2 and paired:
            yield u2
        if u1:
            yield u1
        if u2 and not paired:
            yield u2
    elif k in ('call', 'tail'):
        u1 = _units(out, cur, 1)
        if u1 and u1[1][0][3] == 'auipc':
            u2 = _units(out, cur, 2)
            if u2:
                yield u2
        elif u1:
            yield u1
    else:
        raise KeyError(k)


def structural_parses(items, out, compress, budget=20000):
    """generator of structural parses (lists of (offset, size, units) per item), most natural first; the search
    visits at most `budget` nodes so that a wrong output cannot make the walker explode"""
    acc = []
    steps = [0]

    def rec(i, cur):
        steps[0] += 1
        if steps[0] > budget:
            return
        if i == len(items):
            if cur == len(out):
                yield list(acc)
            return
        for size, units in _candidates(items[i], out, cur, compress):
            acc.append((cur, size, units))
            yield from rec(i + 1, cur + size)
            acc.pop()
    import sys
    if sys.getrecursionlimit() < 4 * len(items) + 200:
        sys.setrecursionlimit(4 * len(items) + 200)
    yield from rec(0, 0)


SENT = [0] + [0x51000000 + 0x01010101 * r for r in range(1, 32)]     # distinct sentinels, nothing near a boundary


def _imm_equal(mn, got, want):
    if mn in ('lui', 'auipc'):
        return (got - want) % (1 << 20) == 0
    return got == want


def check_item(it, place, labels, out, compress, errs, idx):
    """semantic check of one item at its walked place; appends (category, idx, message) to errs"""
    cur, size, units = place
    k = it['k']
    if k in ('inst', 'cinst'):
        (c, usz, kind, mn, f) = units[0]
        if kind == 'bad':
            errs.append(('illegal', idx, '%s at %#x is %s' % (it['text'], cur, mn)))
            return
        if k == 'cinst':
            if usz != 2:
                errs.append(('size', idx, 'explicit %s occupies %d bytes' % (it['mn'], usz)))
                return
            want_mn, want_f = rv32.expand(it['mn'], {r: (ev(v, labels, cur) if r == 'imm' else v) for r, v in it['f'].items()})
            if f.get('_c') != it['mn']:
                errs.append(('inst', idx, '%s emitted as %s' % (it['text'], f.get('_c'))))
                return
        else:
            if usz == 2 and not compress:
                errs.append(('size', idx, '%s emitted in 16 bits without compression' % it['text']))
            want_mn, want_f = it['mn'], {r: (ev(v, labels, cur) if r == 'imm' else v) for r, v in it['f'].items()}
        got = {r: v for r, v in f.items() if r != '_c'}
        dep = 'imm' in it['f'] and depends_on_label(it['f']['imm'])
        if mn != want_mn or set(got) != set(want_f) or any(not _imm_equal(mn, got[r], want_f[r]) for r in got):
            # the one non-literal equivalence a compressor may use: same effect on the ISS from the value alphabet
            if kind == '16' and mn != want_mn and equivalent(usz, mn, got, 4, want_mn, want_f):
                return
            cat = 'xfer' if is_transfer(it) else ('labelval' if dep else 'inst')
            errs.append((cat, idx, '%s at %#x decodes to %s %r, expected %s %r' % (it['text'], cur, mn, got, want_mn, want_f)))
    elif k == 'li':
        want = ev(it['spec'], labels, cur) & M32
        if any(u[2] == 'bad' for u in units):
            errs.append(('illegal', idx, '%s contains an illegal unit' % it['text']))
            return
        m = rv32.Machine(SENT, pc=cur)
        try:
            for (c, usz, kind, mn, f) in units:
                m.exec(usz, mn, f)
        except rv32.Unsupported as e:
            errs.append(('li', idx, '%s expands to unsupported %s' % (it['text'], e)))
            return
        exp = list(SENT)
        if it['rd']:
            exp[it['rd']] = want
        if m.x != exp or m.pc != cur + size or any(t[0] in ('ld', 'st') for t in m.trace):
            cat = 'labelval' if depends_on_label(it['spec']) else 'li'
            bad = [(r, hex(m.x[r])) for r in range(32) if m.x[r] != exp[r]]
            errs.append((cat, idx, '%s at %#x: expected x%d=%#x; differing registers %s, pc=%#x' % (it['text'], cur, it['rd'], want, bad, m.pc)))
    elif k in ('call', 'tail'):
        if any(u[2] == 'bad' for u in units):
            errs.append(('illegal', idx, '%s contains an illegal unit' % it['text']))
            return
        m = rv32.Machine(SENT, pc=cur)
        try:
            for (c, usz, kind, mn, f) in units:
                if m.pc != c:
                    break
                m.exec(usz, mn, f)
        except rv32.Unsupported as e:
            errs.append(('xfer', idx, '%s expands to unsupported %s' % (it['text'], e)))
            return
        exp = list(SENT)
        if k == 'call':
            exp[1] = (cur + size) & M32
        elif len(units) == 2:
            exp[6] = m.x[6]          # far tail: only the scratch register x6 may change
        tgt = labels[it['target']] & M32
        if m.pc != tgt:
            errs.append(('xfer', idx, '%s at %#x transfers to %#x, label is at %#x' % (it['text'], cur, m.pc, tgt)))
        elif m.x != exp:
            bad = [(r, hex(m.x[r]), hex(exp[r])) for r in range(32) if m.x[r] != exp[r]]
            errs.append(('xfer', idx, '%s at %#x: unexpected register effects %s' % (it['text'], cur, bad)))
    elif k == 'data':
        p = it['payload']
        if isinstance(p, (bytes, bytearray)):
            if out[cur:cur + size] != p:
                errs.append(('data', idx, '%r at %#x emits %s, expected %s' % (it['text'][:60], cur, out[cur:cur + size][:16].hex(), bytes(p[:16]).hex())))
        else:
            fmt, spec = p
            want = ev(spec, labels, cur)
            n = struct.calcsize(fmt)
            wb = (want % (1 << (8 * n))).to_bytes(n, 'big' if fmt[0] == '>' else 'little')
            if out[cur:cur + size] != wb:
                errs.append(('labelval', idx, '%s at %#x emits %s, expected %s (= %d)' % (it['text'], cur, out[cur:cur + size].hex(), wb.hex() if wb else None, want)))
    elif k == 'align':
        if size != (-cur) % it['n'] or any(out[cur:cur + size]):
            errs.append(('pad', idx, '%s at %#x: padding %s' % (it['text'], cur, out[cur:cur + size].hex())))


VALS = [0, 1, 2, 0xffffffff, 0xfffffffe, 0x7ff, 0x800, 0xfffff800, 0x7fffffff, 0x80000000, 0x80000001, 0x12345678]


def effect(size, mn, f, val_a, val_b):
    """effect signature of one instruction from a state of the value alphabet"""
    regs = list(SENT)
    srcs = [f[r] for r in ('rs1', 'rs2') if r in f and f[r]]
    if srcs:
        regs[srcs[0]] = val_a
    if len(srcs) > 1 and srcs[1] != srcs[0]:
        regs[srcs[1]] = val_b
    m = rv32.Machine(regs, pc=0x1000)
    m.exec(size, mn, dict(f))
    reads = sorted({t[1] for t in m.trace if t[0] == 'r'})
    writes = [(t[1], t[2]) for t in m.trace if t[0] == 'w' and t[1] != 0]
    mem = [t for t in m.trace if t[0] in ('ld', 'st')]
    nxt = m.pc - 0x1000 - size        # 0 = fall through
    return m.x, mem, nxt, writes


def equivalent(sa, mna, fa, sb, mnb, fb):
    try:
        for a in VALS:
            for b in VALS[:4]:
                ea, eb = effect(sa, mna, fa, a, b), effect(sb, mnb, fb, a, b)
                if ea != eb:
                    return False
    except rv32.Unsupported:
        return False
    return True


class Walk:
    def __init__(self):
        self.ok = False
        self.places = None
        self.labels = {}
        self.env = {}        # labels + constants usable as absolute positions
        self.errors = []

    def offset_of(self, idx):
        return self.places[idx][0]


def walk(items, out, compress):
    """-> Walk: the structural parse with the fewest semantic errors (none when the output is right)"""
    w = Walk()
    out = bytes(out)
    best = None
    tried = 0
    for places in structural_parses(items, out, compress):
        tried += 1
        only_labels = {it['name']: pl[0] for it, pl in zip(items, places) if it['k'] == 'label'}
        labels = dict(only_labels)
        labels.update({it['name']: it['value'] for it in items if it['k'] == 'const' and 'value' in it})     # constants shadow labels (ChainMap(constants, labels))
        errs = []
        for idx, (it, pl) in enumerate(zip(items, places)):
            missing = [l for l in refs(it) if l not in labels]
            if missing:
                errs.append(('undefined', idx, 'label %s not defined' % missing))
                continue
            check_item(it, pl, labels, out, compress, errs, idx)
        if best is None or len(errs) < len(best[2]):
            best = (places, only_labels, errs, labels)
        if not errs or tried >= 8:
            break
    if best is None:
        w.errors = [('structure', -1, 'the output (%d bytes) is not the in-order concatenation of the items' % len(out))]
        return w
    w.places, w.labels, w.errors, w.env = best
    w.ok = not w.errors
    return w
