"""C06 - unrepresentable operands are rejected, never truncated; legal ones accepted (DESIGN.md section 3, C06).

Product explorer over all 93 mnemonics: every operand position sweeps a window reaching far beyond both ends of its
legal set (all residues of the scale, wrap-around values 2^k + legal), registers -3..40 and every spelling incl.
near misses; oracle = independent legality table (mc/isa.py): accepted <=> legal, and accepted => decodes to the
operands named (so "accepted but masked" is caught even when the predicate is right).
"""
import itertools

from mc import isa, kernel, encdrv
from mc.ref import rv32

PROP = 'C06'

SPELL = {}
for _r in range(32):
    for _s in isa.reg_spellings(_r):
        SPELL[_s] = _r
NEAR_MISS = ['x32', 'x33', 'x-1', 'a8', 's12', 't7', '0x20', '32', '-1', 'zer', 'x', 'r1', 'x1x', 'xa', 'x0x1f', 'ra1', 'pc', 'sp2', '40']


def regnum(v):
    if isinstance(v, int):
        return v if 0 <= v <= 31 else None
    return SPELL.get(v)


def normalise(mn, ops):
    """-> (ops with registers as numbers, legal?)"""
    out, ok = [], True
    for (r, k), v in zip(isa.ALL[mn], ops):
        if k in isa.REGKINDS:
            n = regnum(v)
            if n is None or not isa.legal(k, n):
                ok = False
            out.append(n)
        else:
            if not isinstance(v, int) or not isa.legal(k, v):
                ok = False
            out.append(v)
    return out, ok


def judge(ctx, mn, ops, pos, result, driver, case):
    """result = ('ok', word) | ('refused', exc)"""
    nops, ok = normalise(mn, ops)
    role = isa.ALL[mn][pos][0] if pos is not None and isa.ALL[mn] else '-'
    for (r, k), v, nv in zip(isa.ALL[mn], ops, nops):
        if nv is None or not isinstance(nv, int) or not isa.legal(k, nv):
            role = r            # name the operand that is actually at fault
            break
    if result[0] == 'ok':
        w = result[1]
        if not ok:
            ctx.violation('%s:%s:accepted-illegal:%s' % (PROP, mn, role), '%s %s is accepted (emits %s) although operand %s is not representable'
                          % (mn, list(ops), hex(w) if isinstance(w, int) else w, role), driver, case, expected='refused', observed=w)
            return
        exp = (mn, isa.expected_fields(mn, nops))
        d = encdrv.decode(mn, w)
        if d != exp:
            ctx.violation('%s:%s:accepted-wrong:%s' % (PROP, mn, role), '%s %s emits %s which decodes to %r' % (mn, list(ops), hex(w) if isinstance(w, int) else w, d),
                          driver, case, expected=exp, observed=[w, d])
    else:
        if ok:
            ctx.violation('%s:%s:refused-legal:%s' % (PROP, mn, role), '%s %s is refused (%s) although every operand is inside its documented range'
                          % (mn, list(ops), result[1]), driver, case, expected='accepted', observed=result[1])


def enc_point(ctx, case):
    asm = kernel.boot()
    mn, ops = case['mn'], tuple(case['ops'])
    ctx.count('enc_calls')
    try:
        r = ('ok', encdrv.call(asm, mn, ops))
    except Exception as e:
        r = ('refused', '%s: %s' % (type(e).__name__, e))
    judge(ctx, mn, ops, case.get('pos'), r, 'enc_point', case)


def enc_task(ctx, task):
    """task = dict(mn, axes, pos): full product of the axes (pos = the swept operand, for the violation key)"""
    asm = kernel.boot()
    encdrv.warm(asm)
    mn = task['mn']
    n = acc = ill = 0
    for ops in itertools.product(*task['axes']):
        n += 1
        try:
            r = ('ok', encdrv.call(asm, mn, ops))
            acc += 1
        except Exception as e:
            r = ('refused', '%s: %s' % (type(e).__name__, e))
        before = len(ctx.viol)
        judge(ctx, mn, ops, task.get('pos'), r, 'enc_point', dict(mn=mn, ops=list(ops), pos=task.get('pos')))
    ctx.count('points', n)
    ctx.count('enc_calls', n)
    ctx.count('accepted', acc)
    ctx.seen('mnemonics', mn)
    if n:
        ctx.sample(dict(driver='encoder', mn=mn, swept=task.get('pos'), n=n, accepted=acc), cap=1)


def text_point(ctx, case):
    """one-line program: refused => no output and an exception; accepted => the right bytes"""
    asm = kernel.boot()
    mn, ops, line = case['mn'], case['ops'], case['line']
    ctx.count('text_lines')
    try:
        out = asm.assemble(line + '\n', compress=False)
    except Exception as e:
        r = ('refused', '%s: %s' % (type(e).__name__, kernel.errline(e)))
    else:
        size = 2 if mn.startswith('c.') else 4
        if len(out) != size:
            ctx.violation('%s:%s:text-size' % (PROP, mn), 'line %r emits %d bytes' % (line, len(out)), 'text_point', case, expected=size, observed=bytes(out))
            return
        r = ('ok', int.from_bytes(out, 'little'))
    judge(ctx, mn, ops, case.get('pos'), r, 'text_point', case)


def text_task(ctx, cases):
    encdrv.warm(kernel.boot())
    for c in cases:
        text_point(ctx, c)
    ctx.sample(dict(driver='text', line=cases[0]['line']), cap=1)


DRIVERS = {'enc_point': enc_point, 'text_point': text_point}


def near(kind):
    """values within a few steps of each bound, around zero, and wrapped copies"""
    lo, hi, step, zero, extra = isa.KINDS[kind]
    c = set()
    for b in [lo, hi, 0] + [x for ab in extra for x in ab]:
        c.update(range(b - step - 2, b + step + 3))
    for k in (8, 12, 13, 20, 21, 32):
        c.update((2 ** k + lo, 2 ** k + hi, 2 ** k, -(2 ** k) + hi, 2 ** k + step))
    return sorted(c, key=lambda v: (abs(v), v))


def run(tier, seed, t0):
    etasks, ttasks = [], []
    regwin = list(range(-3, 41))
    for mn, sig in isa.ALL.items():
        if not sig:
            etasks.append(dict(mn=mn, axes=[], pos=None))
            continue
        bases = encdrv.base_tuples(mn, 3)
        for pos, (role, kind) in enumerate(sig):
            if kind in isa.REGKINDS:
                sweep = regwin + sorted(SPELL) + NEAR_MISS
            else:
                sweep = encdrv.window(kind)
            for b in bases:
                axes = [[v] for v in b]
                axes[pos] = sweep
                etasks.append(dict(mn=mn, axes=axes, pos=pos))
            # joint: this operand near its bounds x every other operand near its bounds (pairs)
            for pos2, (role2, kind2) in enumerate(sig):
                if pos2 <= pos:
                    continue
                axes = [[v] for v in bases[0]]
                axes[pos] = regwin if kind in isa.REGKINDS else near(kind)
                axes[pos2] = regwin if kind2 in isa.REGKINDS else near(kind2)
                etasks.append(dict(mn=mn, axes=axes, pos=pos))
        # RVC: the complete register x window product (small), 32-bit: all register tuples at 2 immediates
        if mn.startswith('c.'):
            axes = [list(range(32)) if k in isa.REGKINDS else encdrv.window(k, margin=20) for r, k in sig]
            etasks.append(dict(mn=mn, axes=axes, pos=len(sig) - 1))
        # text front end: every operand near its bounds, one line per program
        cases = []
        for pos, (role, kind) in enumerate(sig):
            if kind in isa.REGKINDS and role != 'uimm':
                sweep = ['x%d' % r for r in range(-1, 34)] + NEAR_MISS + [str(r) for r in (-1, 0, 7, 8, 15, 16, 31, 32)]
            elif kind == 'bit' or role == 'uimm':
                sweep = [str(v) for v in range(-2, 35)]
            else:
                sweep = near(kind)
            for i, v in enumerate(sweep):
                ops = list(bases[0])
                ops[pos] = v
                toks = []
                for (r2, k2), o in zip(sig, ops):
                    if isinstance(o, str):
                        toks.append(o)
                    elif k2 in isa.REGKINDS and r2 != 'uimm':
                        toks.append('x%d' % o)
                    else:
                        toks.append(isa.int_spellings(o)[i % 3])
                if role == 'uimm' or kind == 'bit':
                    ops[pos] = int(v)
                cases.append(dict(mn=mn, ops=ops, pos=pos, line=mn + ' ' + ', '.join(toks)))
                if role == 'imm' and isinstance(v, int) and pos == len(sig) - 1:
                    # the same immediate written as an arithmetic expression of several tokens (documented: immediates are integer arithmetic)
                    expr = ('%d + 0' % v, '0 + %d' % v if v >= 0 else '0 - %d' % -v, '%d * 1' % v)[i % 3]
                    cases.append(dict(mn=mn, ops=ops, pos=pos, line=mn + ' ' + ', '.join(toks[:-1] + [expr]), expr=True))
        ttasks.extend(kernel.chunks(cases, 400))
    m = kernel.explore(enc_task, etasks)
    m = kernel.explore(text_task, ttasks, merged=m)
    n = m.n
    cov = dict(states=n['points'] + n['text_lines'], transitions=n['enc_calls'] + n['text_lines'],
               traces_validated_against_impl=n['points'] + n['text_lines'], evaluations=n['points'] + n['text_lines'],
               distinct_nontrivial=n['accepted'],
               rule='per mnemonic and operand position: sweep of a window from 3 scales+70 below the legal minimum to the same above the maximum, all residues, '
                    'wrap-around values 2^k+legal, registers -3..40 as ints and every spelling incl. near misses, on 3 legal base tuples; pairwise near-bound '
                    'products; for RVC the complete register x window product; text front end near every bound. non-trivial = accepted points (each decoded)',
               exhaustive=True, bound='the stated windows, complete in both tiers', mnemonics=len(m.sets['mnemonics']),
               encoder_points=n['points'], text_lines=n['text_lines'])
    return kernel.finish(PROP, tier, seed, t0, m, cov, [
        'legality table mc/isa.py written from the ISA manual and docs/instruction_reference.rst',
        'U-type legal set is [-2^19, 2^19) u [0x80000, 0xfffff] (documented flexibility); jalr offsets even (documented "MO2"); CSR operands share the signed '
        '12-bit range of I-type (the reference gives no CSR range, so refusing 0xc00 is noted, not claimed)',
        'refused = any exception (its type is C15\'s concern)'])
