"""C15 - a faulty source line is reported as an assembler error naming that file and line (DESIGN.md section 3, C15).

Fault enumeration as a history explorer: base programs (with pseudo-instructions, data, aligns, blank and comment
lines, include trees of depth 0..2) x every fault class of the property x the faulty line planted at EVERY position of
EVERY file x compression off/on, through the API and (sub-set) the command line.  Planted faults are size- and
alignment-neutral (4-byte or 0-byte items) so the planted line stays the only fault of the program.
Oracle: the exception is asm.AssemblerError (any other type is a violation) whose line.file is the planted file and
whose line.number is the 1-based physical line; the CLI exits 1 and prints that path and number on stderr.
"""
import os

from mc import kernel, trees

PROP = 'C15'

FAULTS = {
    'imm-range': ['addi x8, x8, 4096', 'lw x8, x8, -3000', 'lui x8, 0x100000', 'sw x8, x9, 2048', 'jalr x0, x1, 3', 'c.addi x8, 32\nc.nop',
                  # far outside: more digits than the interpreter converts to decimal text
                  'addi x8, x8, 1 << 20000', 'addi x8, x8, -(10 ** 4400)', 'lui x8, 1 << 15000', 'c.addi x8, 1 << 20000\nc.nop'],
    'branch-reach': ['beq x8, x0, FAR', 'bne x8, x9, 5000', 'beqz x8, FAR', 'bgtu x5, x6, FAR', 'jal x0, 0x100000', 'beq x8, x0, 3'],
    'data-range': ['dw 0x1ffffffff', 'ints -0x80000001', 'pack <I -1', 'bytes 1 2 3 256', 'shorts 1 65536', 'pack <i 0x80000000', 'longs 0x100000000', 'dw -0x80000001', 'dw 1 << 20000', 'pack <I 10 ** 4400', 'dd -(1 << 20000)\nalign 4'],
    'shift-range': ['slli x8, x8, 32', 'srai x9, x9, 33', 'srli x5, x6, -1'],
    'unknown-register': ['add foo, x1, x2', 'add x1, foo, x2', 'add x1, x2, foo', 'addi x8, bar, 1', 'addi bar, x8, 1', 'sw x8, baz, 0', 'sw baz, x8, 0', 'lw x32, x2, 0',
                         'mv qux, x3', 'mv x8, qux', 'beqz quux, L0', 'beq x8, nope, L0', 'lui nope, 1', 'jal nope, L0', 'amoadd.w x8, x9, nope', 'lr.w nope, x8',
                         'c.mv x8, nope\nc.nop', 'li nope, 5', 'li nope, 0x12345\nalign 4', 'jalr x0, nope, 0', 'csrrw x1, nope, 0x300', 'neg x8, nope', 'slli nope, x8, 1'],
    'undefined-label': ['beq x8, x0, NOWHERE', 'jal x0, NOWHERE', 'j NOWHERE', 'call NOWHERE\nalign 4', 'tail NOWHERE\nalign 4', 'dw NOWHERE', 'addi x8, x8, %offset(NOWHERE)',
                        'li x8, %position(NOWHERE, 0)\nalign 4', 'pack <I %position(NOWHERE, 4)', 'bnez x9, NOWHERE', 'c.j %offset(NOWHERE)\nc.nop'],
    'undefined-constant': ['addi x8, x8, UNDEF + 1', 'dw UNDEF * 2', 'XX = UNDEF + 1', 'lui x8, %hi(UNDEF)', 'li x8, UNDEF\nalign 4', 'lw x8, x8, UNDEF',
                           # an undefined name that happens to spell a register (a typo such as addi for add) is still an undefined name
                           'addi x8, x8, t2', 'dw a5', 'lw x8, x8, sp', 'lui x8, %hi(gp)', 'sw x8, x9, x3 + 1', 'beq x8, x0, a0', 'addi x8, x8, s1 * 2'],
    'malformed-expression': ['addi x8, x8, 1 +', 'dw (1', 'YY = 1 +', 'addi x8, x8, 1 2', 'dw 3 3', 'addi x8, x8, ))', 'dw 0x', 'addi x8, x8, 08',
                             # expressions whose evaluation raises every family of Python exception
                             'addi x8, x8, [7][1]', 'dw {}[0]', 'addi x8, x8, "ab"[5]', 'dw (1).foo', 'dw 1 << -1', 'dw 1 // 0', 'addi x8, x8, 7 % 0', 'dw abs(1)', 'dw -',
                             'WW = [7][1]', 'dw 1 if', 'li x8, {}[0]\nalign 4', 'lui x8, %hi([1][2])', 'dw int',
                             # malformed modifiers and character literals
                             'addi x8, x8, %lo', 'dw %offset', 'dw %position', 'dw %offset(', 'dw %offset(L0) + 4', 'dw %position(L0', 'lui x8, %hi', 'lui x8, %hi(', 'addi x8, x8, %lo()',
                             "db '\\'\nalign 4", "db '\\x'\nalign 4", "li x8, '\\u12'\nalign 4", "QQ = '\\'", "dw 'ab'", "dw ''",
                             # control characters in an operand (NUL-digit-NUL is what the lexer itself uses internally to shield character literals)
                             'addi x8, x8, \x000\x00', 'dw \x005\x00', "li x8, '#' + \x001\x00\nalign 4", 'dw \x00', 'addi x8, x8, 1\x002',
                             # unbalanced parentheses / a modifier where a plain reference is expected
                             'lw x8, 4(x9', 'lw x8, 4(x9))', 'sw x8, 0(x9', 'sw x8, 0(x9))', 'jalr x0, 0(x1', 'c.lw x8, 0(x9\nc.nop', 'c.sw x8, 4(x9))\nc.nop',
                             'li x8, %hi\nalign 4', 'li x8, %lo(\nalign 4', 'li x8, %offset\nalign 4', 'li x8, %position(L0\nalign 4',
                             # the faulty line (or its comment) contains characters that are special to str.format / % formatting
                             'addi x8, x8, 4096  # see {errata 12}', 'addi x8, x8, {5}', 'dw UNDEF_{0}', 'addi x8, x8, 4096 # 100%s sure %d', "dw '{' + 1",
                             'j %offset(L0)', 'beqz x8, %offset(L0)', 'bgtu x5, x6, %offset(L0)', 'call %offset(L0)\nalign 4'],
    'non-integer': ['addi x8, x8, 1.5', 'dw 2 / 1', 'ZZ = 1.5', 'addi x8, x8, "a"', 'dw 1e3', 'dw None', 'dw ()', 'dw [1]', 'dw "a" * 2', 'addi x8, x8, 1 < 2', 'dw 2 ** -1', 'dw lambda: 1', 'dw (1 << 20000,)', 'addi x8, x8, (10 ** 4400, 1)'],
    'error-directive': ['error boom', '  error this board is not supported # really', 'error see docs\\usage.txt', 'error C:\\new\\x', 'error trailing backslash \\', 'error unsupported chip {CHIP}', 'error 100%d sure {0}',
                        # the parser takes the keyword in any case and after any whitespace
                        'ERROR board not supported', 'Error two words', 'error\tboard not supported', '  ERROR\tindented and tabbed', 'error  two spaces'],
    # a string whose escape sequence is truncated / names no character / yields a lone surrogate: the text cannot be encoded, the line must be reported
    'malformed-string': ['string C:\\', 'string \\x4', 'string abc\\xZZ', 'string \\u12', 'string \\U99999999', 'string \\N{NO SUCH NAME}', 'string \\ud800', 'string a\\udc00b',
                         '  string tab\\x', 'STRING \\u1'],
    'missing-include': ['include nothere.asm', 'include "sub/nothere.asm"'],
    'missing-include-bytes': ['include_bytes nothere.bin'],
}

# lines that the current assembler refuses but that are not faulty in themselves (an assembler that takes a modifier there is fine): only HOW they are refused is judged
MAY_ACCEPT = {'j %offset(L0)', 'beqz x8, %offset(L0)', 'bgtu x5, x6, %offset(L0)', 'call %offset(L0)\nalign 4'}

PRE = ['# header comment', '', '{T}_a:', '    addi x8, x8, {N}   # count', '', '  li x9, 0x12345', '    beq x8, x0, {T}_a']
POST = ['{T}_K = {N} + 100', '', '# data', 'dw {T}_K', 'align 4', 'nop']
TAIL = ['string ' + 'g' * 6000, 'align 4', 'FAR:', 'L0:', 'nop']


def body(name, ident):
    t = name.replace('.', '_')
    f = lambda ls: [l.replace('{T}', t).replace('{N}', str(ident)) for l in ls]
    return f(PRE), f(POST)


def tree(shape):
    """shape 0: single file; 1: main + one include (sub-directory); 2: main -> a (inc dir) -> b (beside a) plus sibling c"""
    if shape == 0:
        return trees.node('main.asm', body=body('main.asm', 1))
    if shape == 1:
        return trees.node('main.asm', body=body('main.asm', 1), children=[trees.node('one.asm', 'sub', 'middle', 'plain', body=body('one.asm', 2))])
    b = trees.node('b.asm', '.', 'first', 'dquote', body=body('b.asm', 3))
    a = trees.node('a.asm', 'inc', 'middle', 'comment', [b], body=body('a.asm', 2))
    c = trees.node('c.asm', 'sub', 'last', 'plain', body=body('c.asm', 4))
    return trees.node('main.asm', body=body('main.asm', 1), children=[a, c])


def plant(files, main, path, k, fault):
    """rewrite `path` with the fault inserted before its physical line k (0-based); main gets the far tail appended"""
    for p, (n, lines) in files.items():
        ls = list(lines)
        if p == path:
            ls[k:k] = fault.split('\n')
        if p == main:
            ls += TAIL
        with open(p, 'w') as f:
            f.write('\n'.join(ls) + '\n')


def fault_case(ctx, case):
    """case = dict(shape, file (basename), k, klass, fault, compress, cli)"""
    asm = kernel.boot()
    base = trees.fresh_dir(os.path.join(kernel.scratch('_c15'), 'case'))
    main, inc, files = trees.write(tree(case['shape']), base)
    path = [p for p in files if os.path.basename(p) == case['file']][0]
    plant(files, main, path, case['k'], case['fault'])
    want_line = case['k'] + 1
    comp = case['compress']
    ctx.count('runs')
    try:
        with trees.cwd(base):
            asm.assemble(main, include_dirs=[inc], compress=comp)
        got = ('accepted', None, None)
    except asm.AssemblerError as e:
        ln = getattr(e, 'line', None)
        got = ('AssemblerError', getattr(ln, 'file', None), getattr(ln, 'number', None))
        msg = getattr(e, 'message', '')
        try:
            str(e)          # the error must be printable (that is how the command line reports it)
        except BaseException as e2:
            got = ('unprintable-AssemblerError(%s)' % type(e2).__name__, None, None)
            msg = kernel.errline(e2)
    except BaseException as e:
        got = (type(e).__name__, None, None)
        msg = kernel.errline(e)
    mode = 'c' if comp else 'u'
    first = case['fault'].split()[0]
    if got[0] == 'accepted' and case['fault'] in MAY_ACCEPT:
        ctx.count('accepted_not_faulty')
        return
    if got[0] == 'accepted':
        ctx.violation('%s:%s:%s:accepted:%s' % (PROP, case['klass'], first, mode), 'faulty line %r (%s) at %s:%d is accepted' % (case['fault'], case['klass'], case['file'], want_line),
                      'fault_case', case, expected='AssemblerError at %s:%d' % (case['file'], want_line), observed='accepted')
    elif got[0] != 'AssemblerError':
        ctx.violation('%s:%s:%s:raw-%s:%s' % (PROP, case['klass'], first, got[0], mode), 'faulty line %r at %s:%d escapes as %s: %s (compress=%s)'
                      % (case['fault'], case['file'], want_line, got[0], msg[:120], comp), 'fault_case', case,
                      expected='AssemblerError at %s:%d' % (case['file'], want_line), observed=got[0])
    else:
        same = got[1] is not None and os.path.exists(got[1]) and os.path.samefile(got[1], path)
        if not same or got[2] != want_line:
            ctx.violation('%s:%s:%s:wrong-location:%s' % (PROP, case['klass'], first, mode), 'faulty line %r planted at %s:%d is reported at %s:%s (%s)'
                          % (case['fault'], case['file'], want_line, got[1], got[2], msg[:80]), 'fault_case', case,
                          expected=[path, want_line], observed=[got[1], got[2]])
    if case.get('cli'):
        outp = os.path.join(base, 'o.bin')
        ctx.count('runs')
        ctx.count('cli_runs')
        try:
            st, so, se = trees.run_cli(asm, [main, '-i', inc, '-o', outp] + (['-c'] if comp else []) + (['-v'] if case.get('verbose') else []), base)
        except BaseException as e:
            st, se = 'raw:' + type(e).__name__, repr(e)
        ok = st == 1 and ('line %d' % want_line) in se and any(os.path.basename(path) in l and ('line %d' % want_line) in l for l in se.splitlines()) \
            and (path in se or os.path.relpath(path, base) in se)
        if not ok:
            ctx.violation('%s:%s:%s:cli:%s' % (PROP, case['klass'], first, mode), 'command line with faulty line %r at %s:%d: exit %r, stderr %r'
                          % (case['fault'], case['file'], want_line, st, se[-160:]), 'fault_case', case, expected='exit 1 naming %s line %d' % (path, want_line),
                          observed=dict(status=st, stderr=se[-300:]))
    ctx.seen('classes', case['klass'])


def text_case(ctx, case):
    """the single-file program handed to assemble() as source TEXT, with LF / CRLF / CR line ends, with and without a final line end: the error carries the 1-based line of the fault"""
    asm = kernel.boot()
    pre, post = body('main.asm', 1)
    lines = pre + post
    lines[case['k']:case['k']] = case['fault'].split('\n')
    lines += TAIL
    nl = {'lf': '\n', 'crlf': '\r\n', 'cr': '\r'}[case['nl']]
    src = nl.join(lines) + (nl if case['final'] else '')
    want_line = case['k'] + 1
    ctx.count('runs')
    try:
        asm.assemble(src, compress=case['compress'])
        got = ('accepted', None)
    except asm.AssemblerError as e:
        got = ('AssemblerError', getattr(getattr(e, 'line', None), 'number', None))
    except BaseException as e:
        got = (type(e).__name__, None)
    if got[0] == 'accepted' and case['fault'] in MAY_ACCEPT:
        return
    if got != ('AssemblerError', want_line):
        ctx.violation('%s:%s:%s:text-%s:%s' % (PROP, case['klass'], case['fault'].split()[0], case['nl'], 'wrong-line' if got[0] == 'AssemblerError' else got[0]),
                      'source text with %s line ends, faulty line %r at line %d: %s' % (case['nl'].upper(), case['fault'], want_line, got), 'text_case', case,
                      expected=['AssemblerError', want_line], observed=list(got))
    ctx.seen('classes', case['klass'])


def text_task(ctx, cases):
    for c in cases:
        text_case(ctx, c)
        ctx.count('cases')


def fault_task(ctx, cases):
    for c in cases:
        fault_case(ctx, c)
        ctx.count('cases')
    ctx.sample({k: v for k, v in cases[0].items()}, cap=1)


DRIVERS = {'fault_case': fault_case, 'text_case': text_case}


def positions(shape):
    """(file basename, number of physical lines) for every file of the tree, before planting"""
    base = trees.fresh_dir(os.path.join(kernel.scratch('_c15'), 'probe'))
    main, inc, files = trees.write(tree(shape), base)
    return [(os.path.basename(p), len(lines)) for p, (n, lines) in sorted(files.items())]


def run(tier, seed, t0):
    cases = []
    i = 0
    for shape in (0, 1, 2):
        for fname, nlines in positions(shape):
            for klass, faults in FAULTS.items():
                for fi, fault in enumerate(faults):
                    ks = range(nlines + 1)
                    if tier == 'quick' and fi >= 2:
                        ks = sorted({0, nlines, (fi * 3) % (nlines + 1), nlines // 2})      # every fault everywhere only for the first two of a class
                    for k in ks:
                        for comp in (False, True):
                            i += 1
                            cases.append(dict(shape=shape, file=fname, k=k, klass=klass, fault=fault, compress=comp, cli=(i % 5 == 0), verbose=(i % 10 == 0)))
    m = kernel.explore(fault_task, list(kernel.chunks(cases, 60)))
    # the same faults in a program given as source text, for every kind of line end
    tcases = []
    nlines = len(PRE) + len(POST)
    for klass, faults in FAULTS.items():
        if klass.startswith('missing-include'):
            continue
        for fi, fault in enumerate(faults):
            for k in sorted({0, nlines, (fi * 3) % (nlines + 1)}) if tier == 'quick' else range(nlines + 1):
                for nl in ('lf', 'crlf', 'cr'):
                    tcases.append(dict(k=k, klass=klass, fault=fault, nl=nl, final=bool((fi + k) % 2), compress=bool(fi % 2)))
    m = kernel.explore(text_task, list(kernel.chunks(tcases, 100)), merged=m)
    n = m.n
    cov = dict(states=n['cases'], transitions=n['runs'], traces_validated_against_impl=n['runs'], evaluations=n['runs'], distinct_nontrivial=n['cases'],
               rule='one state per (include tree, file, insertion position, fault line, mode); each is one execution of assemble() (and of cli_main for every 5th); '
                    'every case plants exactly one fault and is non-trivial',
               exhaustive=True, fault_classes=sorted(m.sets['classes']), cli_runs=n['cli_runs'],
               bound='%d fault lines in %d classes x 3 include trees (depth 0, 1, 2; 1 + 2 + 4 files) x every physical insertion position of every file%s x compression off/on; '
                     'the command line for every 5th case' % (sum(len(v) for v in FAULTS.values()), len(FAULTS), '' if tier == 'thorough' else ' (first two faults of a class; 4 positions for the others)'))
    return kernel.finish(PROP, tier, seed, t0, m, cov, [
        'planted faults are size- and alignment-neutral, so the planted line is the only fault of the program',
        'a duplicate label definition is accepted by the assembler (last definition wins), so the property is vacuous for that class; wrong operand counts are not in the property\'s list',
        'AssemblerError.line.file is compared with os.path.samefile'])
