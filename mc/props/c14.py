"""C14 - include is textual splicing, resolved independently of the working directory (DESIGN.md section 3, C14).

History explorer over generated include trees: nesting depth <= 3; the include line first / in the middle / last;
the included file beside the includer, in a sub-directory, in the parent directory or in a -i directory (nested
includes relative to the *included* file); plain, quoted and commented include lines; sibling includes; a file name
present in two directories.  Every tree is assembled through the API from several working directories (tree root,
"/", an unrelated directory, a directory full of same-named decoy files) and, for a sub-set, through the command
line (in-process cli_main and real sub-processes, relative and absolute paths).
Oracle: bytes, labels and constants equal those of the textually spliced single file, identical for every cwd.
"""
import itertools
import os
import subprocess

from mc import kernel, trees

PROP = 'C14'
CWDS = ['root', 'slash', 'other', 'decoys', 'gone']       # gone = a working directory that was removed after the process entered it


def assemble(asm, *a, **kw):
    labels, consts = {}, {}
    try:
        out = bytes(asm.assemble(*a, labels=labels, constants=consts, **kw))
        return ('ok', out, labels, consts)
    except Exception as e:
        return ('err', '%s: %s' % (type(e).__name__, kernel.errline(e)[:160]), {}, {})


def uses_self(n):
    return any(c['where'] == 'self' or uses_self(c) for c in n['children'])


def tree_case(ctx, case):
    """case = dict(tree=node, cwds=[...], cli=bool, compress=bool)"""
    asm = kernel.boot()
    base = trees.fresh_dir(os.path.join(kernel.scratch('_c14'), 'case'))
    other = os.path.join(base, 'other')
    decoys = os.path.join(base, 'decoys')
    os.makedirs(other)
    main, inc, files = trees.write(case['tree'], base, decoy_dirs=[decoys], shadow_ancestors=case.get('shadow', False))
    comp = case.get('compress', False)
    ref = assemble(asm, trees.spliced(case['tree']), compress=comp)
    if ref[0] != 'ok':
        raise RuntimeError('spliced reference does not assemble: %s\n%s' % (ref[1], trees.spliced(case['tree'])))
    dirs = dict(root=os.path.dirname(main), slash='/', other=other, decoys=decoys, gone=os.path.join(base, 'gone'))
    incs = [inc] + ([os.path.dirname(main)] if uses_self(case['tree']) else [])      # the main file's own directory as an explicit -i directory
    results = {}
    for c in case['cwds']:
        with trees.cwd(dirs[c], gone=(c == 'gone')):
            ctx.count('runs')
            r = assemble(asm, main, include_dirs=list(incs), compress=comp)
        results[c] = r
        if r != ref:
            what = 'refused' if r[0] != 'ok' else ('different-bytes' if r[1] != ref[1] else 'different-tables')
            ctx.violation('%s:api:%s:cwd-%s' % (PROP, what, c), 'include tree assembled from cwd=%s gives %s, the spliced file gives %d bytes %s'
                          % (c, r[1] if r[0] != 'ok' else (r[1][:24].hex(), r[2]), len(ref[1]), ref[2]), 'tree_case', case,
                          expected=dict(out=ref[1], labels=ref[2], constants=ref[3]), observed=dict(status=r[0], out=r[1], labels=r[2], constants=r[3]))
    if 'gone' in case['cwds']:
        # the spliced program handed over as source TEXT needs nothing from any directory: it must assemble from a removed working directory as well
        with trees.cwd(dirs['gone'], gone=True):
            ctx.count('runs')
            r = assemble(asm, trees.spliced(case['tree']), compress=comp)
        if r != ref:
            ctx.violation('%s:api-text:%s:cwd-gone' % (PROP, 'refused' if r[0] != 'ok' else 'different'), 'the spliced program given as source text, assembled from a removed working '
                          'directory, gives %s' % (r[1] if r[0] != 'ok' else r[1][:24].hex(),), 'tree_case', case, expected=dict(out=ref[1], labels=ref[2]), observed=dict(status=r[0], out=r[1]))
    if case.get('cli'):
        outp = os.path.join(base, 'out.bin')
        for c in case['cwds']:
            for rel in (False, True):
                if c == 'gone':
                    continue            # the command line makes its arguments absolute with the working directory; the API gets absolute paths
                argv_main = os.path.relpath(main, dirs[c]) if rel else main
                argv_inc = os.path.relpath(inc, dirs[c]) if rel else inc
                more = []
                for d in incs[1:]:
                    more += ['-i', os.path.relpath(d, dirs[c]) if rel else d]
                if os.path.exists(outp):
                    os.remove(outp)
                ctx.count('runs')
                ctx.count('cli_runs')
                try:
                    st, so, se = trees.run_cli(asm, [argv_main, '-i', argv_inc] + more + ['-o', outp] + (['-c'] if comp else []), dirs[c])
                except Exception as e:
                    st, se = 'raw', repr(e)
                got = open(outp, 'rb').read() if os.path.exists(outp) else None
                if st != 0 or got != ref[1]:
                    ctx.violation('%s:cli:%s:cwd-%s' % (PROP, 'refused' if st != 0 else 'different-bytes', c),
                                  'bronzebeard %s -i %s from cwd=%s exits %r with %s' % (argv_main, argv_inc, c, st, (got or b'')[:16].hex() or se[-200:]),
                                  'tree_case', case, expected=ref[1], observed=dict(status=st, out=got, stderr=se[-300:]))
    ctx.count('trees')


def tree_task(ctx, cases):
    for c in cases:
        tree_case(ctx, c)
    ctx.sample(dict(tree=describe(cases[0]['tree']), cwds=cases[0]['cwds']), cap=1)


def describe(n, depth=0):
    return dict(file=n['name'], where=n['where'], position=n['position'], style=n['style'], children=[describe(c, depth + 1) for c in n['children']])


def samename_case(ctx, case):
    """the same file name in the -i directory and beside the includer, with different contents: either candidate is
    acceptable, but the choice must not depend on the working directory"""
    asm = kernel.boot()
    base = trees.fresh_dir(os.path.join(kernel.scratch('_c14'), 'same'))
    src = os.path.join(base, 'src')
    inc = os.path.join(base, 'inc')
    other = os.path.join(base, 'other')
    for d in (src, inc, other, os.path.join(src, 'sub'), os.path.join(inc, 'sub')):
        os.makedirs(d)
    rel = case['rel']
    open(os.path.join(src, rel), 'w').write('addi x8, x8, 1\n')
    open(os.path.join(inc, rel), 'w').write('addi x9, x9, 2\n')
    open(os.path.join(other, os.path.basename(rel)), 'w').write('addi x5, x5, 3\n')
    os.makedirs(os.path.join(other, 'sub'), exist_ok=True)
    open(os.path.join(other, 'sub', os.path.basename(rel)), 'w').write('addi x5, x5, 3\n')
    main = os.path.join(src, 'main.asm')
    open(main, 'w').write('db 1\nalign 4\ninclude %s\ndw 7\n' % rel)
    cands = [assemble(asm, 'db 1\nalign 4\n%s\ndw 7\n' % l)[1] for l in ('addi x8, x8, 1', 'addi x9, x9, 2')]
    outs = {}
    for name, d in (('src', src), ('inc', inc), ('other', other), ('slash', '/')):
        with trees.cwd(d):
            ctx.count('runs')
            outs[name] = assemble(asm, main, include_dirs=[inc])[1]
    ctx.count('trees')
    if len(set(outs.values())) != 1 or outs['src'] not in cands:
        ctx.violation('%s:samename:%s' % (PROP, 'cwd-dependent' if len(set(outs.values())) != 1 else 'neither-candidate'),
                      'include %s present beside the includer and in the -i directory: results per cwd %s' % (rel, {k: (v.hex() if isinstance(v, bytes) else v) for k, v in outs.items()}),
                      'samename_case', case, expected=[c.hex() for c in cands], observed={k: v for k, v in outs.items()})


def casevariant_case(ctx, case):
    """a file whose name differs from the included one ONLY IN CASE sits in a directory that is searched earlier; the exactly named file sits in a later one.
    `include F` names F: the other file may not be taken (case = dict(written, twin, where)); an include of the twin's own name must still find the twin"""
    asm = kernel.boot()
    base = trees.fresh_dir(os.path.join(kernel.scratch('_c14'), 'case'))
    src, inc, inc2 = (os.path.join(base, d) for d in ('src', 'inc', 'inc2'))
    for d in (src, inc, inc2):
        os.makedirs(d)
    written, twin = case['written'], case['twin']
    exact_dir = src if case['where'] == 'beside' else inc2
    open(os.path.join(exact_dir, written), 'w').write('addi x8, x8, 1\n')
    open(os.path.join(inc, twin), 'w').write('addi x9, x9, 2\n')
    main = os.path.join(src, 'main.asm')
    want = assemble(asm, 'db 1\nalign 4\naddi x8, x8, 1\ndw 7\n')[1]
    want_twin = assemble(asm, 'db 1\nalign 4\naddi x9, x9, 2\ndw 7\n')[1]
    for name, expect in ((written, want), (twin, want_twin)):
        open(main, 'w').write('db 1\nalign 4\ninclude %s\ndw 7\n' % name)
        for cwdname, d in (('src', src), ('inc', inc), ('slash', '/')):
            with trees.cwd(d):
                ctx.count('runs')
                got = assemble(asm, main, include_dirs=[inc, inc2])
            if got[1] != expect:
                ctx.violation('%s:casevariant:%s' % (PROP, 'refused' if got[0] != 'ok' else 'other-file'), 'include %s with %s in an earlier search directory and %s %s: %s'
                              % (name, twin, written, case['where'], got[1] if got[0] != 'ok' else got[1].hex()), 'casevariant_case', case, expected=expect, observed=got[1])
                return
    ctx.count('trees')


def definitions_case(ctx, case):
    """--include-definitions: the bundled definition files are found from any working directory"""
    asm = kernel.boot()
    base = trees.fresh_dir(os.path.join(kernel.scratch('_c14'), 'defs'))
    defs = os.path.join(os.path.dirname(asm.__file__), 'definitions')
    name = case['file']
    body = 'include %s\nli t0, %s\ndw %s\n' % (name, case['const'], case['const'])
    main = os.path.join(base, 'main.asm')
    open(main, 'w').write(body)
    ref = assemble(asm, open(os.path.join(defs, name)).read() + '\nli t0, %s\ndw %s\n' % (case['const'], case['const']))
    if ref[0] != 'ok':
        raise RuntimeError('definitions reference failed: ' + ref[1])
    outp = os.path.join(base, 'o.bin')
    for c, d in (('root', base), ('slash', '/'), ('defs', defs)):
        if os.path.exists(outp):
            os.remove(outp)
        ctx.count('runs')
        ctx.count('cli_runs')
        try:
            st, so, se = trees.run_cli(asm, [main, '--include-definitions', '-o', outp], d)
        except Exception as e:
            st, se = 'raw', repr(e)
        got = open(outp, 'rb').read() if os.path.exists(outp) else None
        if st != 0 or got != ref[1]:
            ctx.violation('%s:definitions:%s' % (PROP, 'refused' if st != 0 else 'different-bytes'), '--include-definitions with include %s from cwd=%s: exit %r, %s'
                          % (name, c, st, se[-200:] if st != 0 else (got or b'')[:16].hex()), 'definitions_case', case, expected=ref[1], observed=dict(status=st, out=got))
    ctx.count('trees')


def subprocess_case(ctx, case):
    """a real `bronzebeard` process (validates the in-process CLI observations)"""
    kernel.boot()
    base = trees.fresh_dir(os.path.join(kernel.scratch('_c14'), 'sub'))
    other = os.path.join(base, 'other')
    os.makedirs(other)
    main, inc, files = trees.write(case['tree'], base, decoy_dirs=[other])
    asm = kernel.boot()
    ref = assemble(asm, trees.spliced(case['tree']))
    outp = os.path.join(base, 'out.bin')
    for c, d in (('root', os.path.dirname(main)), ('other', other), ('slash', '/')):
        for rel in (False, True):
            if os.path.exists(outp):
                os.remove(outp)
            a_main = os.path.relpath(main, d) if rel else main
            a_inc = os.path.relpath(inc, d) if rel else inc
            env = dict(os.environ, PYTHONPATH=kernel.REPO)
            p = subprocess.run(['/venv/bin/python', '-c', 'import sys; sys.path.insert(0, %r); from bronzebeard.asm import cli_main; cli_main()' % kernel.REPO,
                                a_main, '-i', a_inc, '-o', outp], cwd=d, capture_output=True, text=True, env=env)
            ctx.count('runs')
            ctx.count('subprocess_runs')
            got = open(outp, 'rb').read() if os.path.exists(outp) else None
            if p.returncode != 0 or got != ref[1]:
                ctx.violation('%s:subprocess:%s:cwd-%s' % (PROP, 'refused' if p.returncode else 'different-bytes', c),
                              'real process `bronzebeard %s -i %s` from %s exits %d: %s' % (a_main, a_inc, c, p.returncode, p.stderr[-200:]),
                              'subprocess_case', case, expected=ref[1], observed=dict(status=p.returncode, out=got))
    ctx.count('trees')


DRIVERS = {'tree_case': tree_case, 'samename_case': samename_case, 'definitions_case': definitions_case, 'subprocess_case': subprocess_case, 'casevariant_case': casevariant_case}


def chains(depth, wheres, positions, styles):
    """all include chains main -> c1 -> ... of exactly `depth` levels"""
    opts = list(itertools.product(wheres, positions, styles))
    for combo in itertools.product(opts, repeat=depth):
        n = None
        for lvl in range(depth, 0, -1):
            w, p, s = combo[lvl - 1]
            n = trees.node('f%d.asm' % lvl, w, p, s, [n] if n else [])
        yield trees.node('main.asm', children=[n])


def run(tier, seed, t0):
    cases = []
    for t in chains(1, trees.DIRS, trees.POSITIONS, trees.STYLES):
        cases.append(dict(tree=t, cwds=CWDS, cli=True))
        cases.append(dict(tree=t, cwds=['other'], compress=True))
    for i, t in enumerate(chains(2, trees.DIRS, trees.POSITIONS, trees.STYLES)):
        cases.append(dict(tree=t, cwds=CWDS if tier == 'thorough' or i % 4 == 0 else ['root', 'decoys'], cli=(i % 16 == 0)))
    d3 = chains(3, trees.DIRS, trees.POSITIONS, trees.STYLES if tier == 'thorough' else ['plain'])
    for i, t in enumerate(d3):
        cases.append(dict(tree=t, cwds=['other', 'decoys', 'gone'] if i % 8 else CWDS, cli=(i % 64 == 0)))
    # siblings: two / three includes in one file at every combination of positions and locations
    for (w1, p1), (w2, p2) in itertools.product(itertools.product(trees.DIRS, trees.POSITIONS), repeat=2):
        kids = [trees.node('a.asm', w1, p1, 'plain', [trees.node('deep.asm', 'sub', 'middle', 'dquote')]), trees.node('b.asm', w2, p2, 'comment')]
        cases.append(dict(tree=trees.node('main.asm', children=kids), cwds=['root', 'decoys']))
    # two includers in different directories that both write `include config.asm`, each meaning the file beside itself
    for w1, w2 in itertools.permutations(['.', 'sub', '..'], 2):
        for p1, p2 in itertools.product(trees.POSITIONS, repeat=2):
            kids = [trees.node('m1.asm', w1, p1, 'plain', [trees.node('config.asm', '.', 'middle', 'plain')]),
                    trees.node('m2.asm', w2, p2, 'plain', [trees.node('config.asm', '.', 'first', 'dquote')])]
            cases.append(dict(tree=trees.node('main.asm', children=kids), cwds=['root', 'other']))
    # diamonds: the same file legitimately included twice (from two includers, and twice from one file)
    for w in trees.DIRS:
        for p1, p2 in itertools.product(trees.POSITIONS, repeat=2):
            chip = trees.node('chip.asm', w, p1, 'plain')
            kids = [trees.node('a.asm', '.', 'first', 'plain', [chip]), trees.node('b.asm', '.', p2, 'plain', [chip])]
            cases.append(dict(tree=trees.node('main.asm', children=kids), cwds=['root', 'other']))
            cases.append(dict(tree=trees.node('main.asm', children=[chip, trees.node('mid.asm', '.', p2, 'plain', [chip])]), cwds=['other']))
    # the main file's own directory given as -i as well: a file in another directory includes, by plain name, a file that sits beside the main file
    for w1 in ('sub', '..', 'inc'):
        for p1, p2 in itertools.product(trees.POSITIONS, repeat=2):
            inner = trees.node('cfg.asm', 'self', p2, 'plain')
            cases.append(dict(tree=trees.node('main.asm', children=[trees.node('lib.asm', w1, p1, 'plain', [inner])]), cwds=['root', 'other', 'slash'], cli=True))
    # the same chains of depth 2 and 3 with a same-named decoy planted in every directory further up the include chain (not a documented search location)
    for i, t in enumerate(chains(2, trees.DIRS, trees.POSITIONS, ['plain'])):
        cases.append(dict(tree=t, cwds=['other'], shadow=True))
    for i, t in enumerate(chains(3, trees.DIRS, ['middle'], ['plain'])):
        cases.append(dict(tree=t, cwds=['other'], shadow=True))
    m = kernel.explore(tree_task, list(kernel.chunks(cases, 40)))
    extra = [('samename_case', dict(rel=r)) for r in ('x.asm', 'sub/x.asm')]
    extra += [('casevariant_case', dict(written=w, twin=t, where=wh)) for w, t in (('regs.asm', 'REGS.asm'), ('Regs.asm', 'regs.asm'), ('chip.ASM', 'chip.asm'), ('gd32vf103.asm', 'GD32VF103.asm'))
              for wh in ('beside', 'later-i')]
    extra += [('definitions_case', dict(file=f, const=c)) for f, c in (('GD32VF103.asm', 'RCU_BASE_ADDR'), ('FE310-G002.asm', 'GPIO_BASE_ADDR'))]
    sub_trees = list(chains(2, ['.', 'sub', 'inc'], ['middle'], ['plain', 'dquote']))[:: (6 if tier == 'quick' else 1)]
    extra += [('subprocess_case', dict(tree=t)) for t in sub_trees]
    m = kernel.explore(extra_task, list(kernel.chunks(extra, 2)), merged=m)
    n = m.n
    cov = dict(states=n['trees'], transitions=n['runs'], traces_validated_against_impl=n['runs'], evaluations=n['runs'], distinct_nontrivial=n['trees'],
               rule='one state per generated include tree; one transition per (tree, working directory, entry point) execution of the real assembler, each compared with the '
                    'textually spliced single file; every tree has at least one include and is non-trivial',
               exhaustive=True, cli_runs=n['cli_runs'], subprocess_runs=n['subprocess_runs'],
               bound='chains of depth 1 and 2: full product of 4 locations x 3 positions x 4 include-line styles per level; depth 3: full product of locations x positions'
                     '%s; siblings: all pairs of (location, position); two includers in different directories using the same relative name; diamonds (a file included twice); chains of depth 2-3 with same-named decoys in every ancestor directory; 4 working directories; same name in two directories; --include-definitions; real sub-processes for a sub-set'
                     % (' x styles' if tier == 'thorough' else ' (plain style)'))
    return kernel.finish(PROP, tier, seed, t0, m, cov, [
        'API calls pass an absolute main path and absolute include_dirs (what cli_main does); for source given as text the working directory is the documented base',
        'a file name present in two search directories may resolve to either, but not depending on the cwd'])


def extra_task(ctx, items):
    for name, case in items:
        DRIVERS[name](ctx, case)
