"""C17 - the command line writes exactly the assembled program, or nothing on failure (DESIGN.md section 3, C17).

Choice explorer over the real cli_main(): program x option set (-c, -i, -o, -l, --hex-offset valid / invalid,
--include-definitions, relative / absolute output names) x crash point - none, or an exception raised at entry or
exit of each pass function of assemble() (discovered at run time by profiling one good run; both AssemblerError and a
foreign exception), or a naturally failing program for every pass that has one, or an invalid option value - while
older -o, -l and .hex files with sentinel contents exist.
Oracle: success => -o holds exactly assemble()'s bytes, -l one `name 0x%08x` line per label with its final address,
the .hex file decodes (checksums verified) to the same bytes at the offset, exit 0.  Failure => exit status != 0 and
all three older files byte-identical.  A sub-set is repeated with real `bronzebeard` processes to validate the
in-process observations.
"""
import itertools
import os
import subprocess
import sys

from mc import kernel, trees
from mc.ref import data as D

PROP = 'C17'

PROGRAMS = {
    'plain': 'addi x8, x8, 1\nnop\ndw 0x11223344\n',
    # (several labels share an address: reset / start, done / finish, end / eof)
    'labels': 'reset:\nstart:\n  li x9, 1\n  addi x8, x8, 1\nloop:\n  beq x8, x0, done\n  call start\n  align 8\nmid:\n  j loop\ndone:\nfinish:\n  ret\nend:\neof:\n',
    'inc': 'include lib.asm\nmain:\n  addi x8, x8, LIBK\n  j libf\n',
    'defs': 'include GD32VF103.asm\nboot:\n  li t0, RCU_BASE_ADDR\n  sw t0, t0, 0\n',
    # a valid program with an intermediate constant of more decimal digits than str() converts (the -v listing prints every constant)
    # every label is followed by a unique marker word, so its true offset can be read off the output without asking the assembler; shrinking items (li, call, align,
    # compressible code) sit in front of the labels and one name (K) is a constant as well as a label
    'marked': 'K = 5\nm0:\n  dw 0xA5A50000\n  li x9, 1\n  addi x8, x8, K\nm1:\n  dw 0xA5A50001\n  call m0\n  addi x8, x8, 1\nK:\nm2:\n  dw 0xA5A50002\n  db 7\n  align 8\nm3:\n  dw 0xA5A50003\n'
              '  j m1\n  add x9, x9, x10\nm4:\nm5:\n  dw 0xA5A50004\n',
    'bigconst': 'BIG = 1 << 20000\nSMALL = BIG >> 19998\nstart:\n  addi x8, x8, SMALL\n  dw SMALL + 1\n',
}
LIB = 'LIBK = 7\nlibf:\n  addi x9, x9, 2\n'
NATURAL = {     # naturally failing programs, one for every pass that can fail
    'read-missing-include': 'nop\ninclude nothere.asm\n',
    'read-missing-include-bytes': 'nop\ninclude_bytes nothere.bin\n',
    'parse-unknown': 'nop\nfrobnicate x1\n',
    'parse-error-directive': 'a:\nerror not supported\n',
    'constants': 'K = 1 // 0\nnop\n',
    'pseudo-undefined-label': 'a:\ncall nowhere\n',
    'immediates-undefined': 'a:\naddi x8, x8, UNDEF\n',
    'encode-range': 'a:\naddi x8, x8, 5000\n',
    'encode-register': 'a:\nadd foo, x1, x2\n',
    'data-range': 'a:\ndb 256\n',
}
HEX_VALID = [None, '0', '0x08000000', '0xffffff00', 'END']        # END = 2^32 - len(program): the last offset that fits
HEX_INVALID = ['zz', '0x', '-1', '4294967296', '0xffffffff', 'END+1', 'END+2', '']           # '' = an option value that is present but empty
SENT = {'out': b'OLD-BINARY\x00\x01', 'labels': b'old_label 0x00000042\n', 'hex': b':00000001FF\nOLD-HEX\n'}


def discover_passes(asm):
    """module-level functions of bronzebeard.asm called directly from assemble(), in call order (no reliance on their names)"""
    seen = []

    def prof(frame, event, arg):
        if event == 'call' and frame.f_back is not None and frame.f_back.f_code is asm.assemble.__code__:
            name = frame.f_code.co_name
            if getattr(asm, name, None) is not None and getattr(getattr(asm, name), '__code__', None) is frame.f_code and name not in seen:
                seen.append(name)
    sys.setprofile(prof)
    try:
        asm.assemble('a:\nli x8, 5\nK = 1\ndb K\nalign 4\nstring x\nbytes 1\npack <B 1\nalign 4\nj a\n', compress=True)
    finally:
        sys.setprofile(None)
    return seen


class Foreign(Exception):
    pass


def inject(asm, name, when, kind):
    orig = getattr(asm, name)

    def boom():
        if kind == 'asm':
            raise asm.AssemblerError('injected failure in pass', asm.Line('<injected>', 1, 'injected'))
        raise Foreign('injected foreign failure')

    fired = []

    def wrapper(*a, **kw):
        fired.append(1)
        if when == 'entry':
            boom()
        r = orig(*a, **kw)
        boom()
        return r
    setattr(asm, name, wrapper)
    return orig, fired


def cli_case(ctx, case):
    """case = dict(prog, compress, labels in {None,'rel','abs'}, out in {'default','rel','abs'}, hex, crash=None|['pass',name,when,kind]|['natural',key]|['option',what], cwd_other)"""
    asm = kernel.boot()
    base = trees.fresh_dir(os.path.join(kernel.scratch('_c17'), 'case'))
    src_dir, inc_dir, work = os.path.join(base, 'src'), os.path.join(base, 'inc'), os.path.join(base, 'work')
    for d in (src_dir, inc_dir, work):
        os.makedirs(d)
    open(os.path.join(inc_dir, 'lib.asm'), 'w').write(LIB)
    crash = case.get('crash')
    text = NATURAL[crash[1]] if crash and crash[0] == 'natural' else PROGRAMS[case['prog']]
    main = os.path.join(src_dir, 'main.asm')
    open(main, 'w').write(text)
    cwd = work
    outp = {'default': os.path.join(cwd, 'bb.out'), 'rel': os.path.join(cwd, 'o.bin'), 'abs': os.path.join(base, 'abs.bin')}[case['out']]
    labp = {None: None, 'rel': os.path.join(cwd, 'l.txt'), 'abs': os.path.join(base, 'abs.lbl')}[case['labels']]
    hexp = outp + '.hex'
    files = {'out': outp, 'labels': labp or os.path.join(cwd, 'l.txt'), 'hex': hexp}
    for k, p in files.items():
        open(p, 'wb').write(SENT[k])
    argv = [os.path.relpath(main, cwd) if case.get('relmain') else main]
    if case['compress']:
        argv.append('-c')
    if case.get('verbose'):
        argv.append('-v')
    inc_dirs = [inc_dir]
    if case.get('two_inc'):
        # two -i directories that both hold lib.asm, given in NON-sorted order: the command-line order is the search order
        inc_dirs = [os.path.join(base, 'zz_first'), os.path.join(base, 'aa_second')]
        for d, k in zip(inc_dirs, (7, 9)):
            os.makedirs(d)
            open(os.path.join(d, 'lib.asm'), 'w').write(LIB.replace('LIBK = 7', 'LIBK = %d' % k))
    if case['prog'] == 'inc' or (crash and crash[0] == 'option' and crash[1] == 'bad-include-dir'):
        for d in inc_dirs:
            argv += ['-i', os.path.relpath(d, cwd) if case.get('relmain') else d]
    if case['prog'] == 'defs':
        argv.append('--include-definitions')
    if case['out'] != 'default':
        argv += ['-o', 'o.bin' if case['out'] == 'rel' else outp]
    if labp:
        argv += ['-l', 'l.txt' if case['labels'] == 'rel' else labp]
    if case['hex'] is not None:
        argv += ['--hex-offset', case['hex']]
    if crash and crash[0] == 'option':
        if crash[1] == 'bad-include-dir':
            argv += ['-i', os.path.join(base, 'no-such-dir')]
        elif crash[1] == 'missing-input':
            argv[0] = os.path.join(src_dir, 'absent.asm')
    # the reference result through the API (same options), before any injection
    exp = None
    api_refuses = False
    if not (crash and crash[0] in ('natural',)):
        labels = {}
        incs = (inc_dirs if '-i' in argv else []) + ([os.path.join(os.path.dirname(asm.__file__), 'definitions')] if case['prog'] == 'defs' else [])
        try:
            exp = (bytes(asm.assemble(main, compress=case['compress'], include_dirs=incs, labels=labels)), labels)
        except Exception:
            # this tree refuses the program through the API: the command line then has to fail cleanly as well (C17 does not say which programs are valid)
            api_refuses = True
            ctx.count('api_refuses')
    if case['hex'] in ('END', 'END+1', 'END+2') and exp:
        # resolve the symbolic boundary offsets now that the program length is known
        case = dict(case, hex_symbol=case['hex'], hex=hex((1 << 32) - len(exp[0]) + {'END': 0, 'END+1': 1, 'END+2': 2}[case['hex']]))
        argv[argv.index('--hex-offset') + 1] = case['hex']
    must_fail = bool(crash) or case['hex'] in HEX_INVALID or case.get('hex_symbol') in HEX_INVALID or api_refuses
    if case['hex'] == '0xffffff00' and exp and len(exp[0]) > 0x100:
        must_fail = True
    orig = fired = None
    if crash and crash[0] == 'pass':
        orig, fired = inject(asm, crash[1], crash[2], crash[3])
    ctx.count('runs')
    try:
        try:
            st, so, se = trees.run_cli(asm, argv, cwd)
        except BaseException as e:           # what a real process turns into a traceback and exit status 1
            st, so, se = 'exception:' + type(e).__name__, '', repr(e)
    finally:
        if orig is not None:
            setattr(asm, crash[1], orig)
    if fired is not None and not fired:
        must_fail = api_refuses    # the pass is not part of this run (e.g. the compression pass without -c): nothing was injected
        ctx.count('injection_not_reached')
    now = {k: (open(p, 'rb').read() if os.path.exists(p) else None) for k, p in files.items()}
    tag = '%s:%s' % (crash[0] if crash else 'none', (crash[1] if crash else '-') if not (crash and crash[0] == 'pass') else '%s-%s' % (crash[2], crash[3]))
    obs = dict(status=st, stderr=se[-200:], files={k: v for k, v in now.items()})
    if must_fail:
        ctx.count('failing_runs')
        if st == 0:
            ctx.violation('%s:fail:%s:exit-0' % (PROP, tag if crash else 'hex-' + str(case.get('hex_symbol', case['hex']))), 'run that must fail (%s, hex=%s) exits 0: argv %s' % (crash, case['hex'], argv), 'cli_case', case,
                          expected='non-zero exit', observed=obs)
        changed = [k for k in files if now[k] != SENT[k]]
        if changed:
            why = tag if crash else 'hex-' + str(case.get('hex_symbol', case['hex']))
            ctx.violation('%s:fail:%s:modified-%s' % (PROP, why, '+'.join(changed)), 'failing run (%s, hex=%s, exit %r) modified the existing %s file(s): argv %s'
                          % (crash, case['hex'], st, changed, argv), 'cli_case', case, expected='older files untouched', observed=obs)
        return
    ctx.count('successful_runs')
    out, labels = exp
    problems = []
    if st != 0:
        problems.append('exit %r: %s' % (st, se[-150:]))
    if now['out'] != out:
        problems.append('-o holds %s, assemble() gives %s' % ((now['out'] or b'')[:16].hex(), out[:16].hex()))
    if labp:
        want = sorted('%s 0x%08x\n' % (k, v) for k, v in labels.items())
        got = sorted((now['labels'] or b'').decode('utf-8', 'replace').splitlines(True))
        if got != want:
            problems.append('-l holds %r, expected %r' % (got[:6], want[:6]))
    elif now['labels'] != SENT['labels']:
        problems.append('l.txt modified although -l was not given')
    if labp and case['prog'] == 'marked' and not problems:
        # the label file against the output itself: label mI sits where marker word I is (m5 shares m4's address, K shares m2's)
        table = {}
        for ln in (now['labels'] or b'').decode('utf-8', 'replace').splitlines():
            parts = ln.split()
            if len(parts) == 2:
                table[parts[0]] = int(parts[1], 16)
        data = now['out'] or b''
        where = {i: data.find((0xA5A50000 + i).to_bytes(4, 'little')) for i in range(5)}
        want_tab = {'m0': where[0], 'm1': where[1], 'm2': where[2], 'K': where[2], 'm3': where[3], 'm4': where[4], 'm5': where[4]}
        if table != want_tab:
            problems.append('-l says %s, the marker words in the -o file are at %s' % (sorted(table.items()), sorted(want_tab.items())))
    if case['hex'] is not None:
        try:
            mem = D.read_ihex((now['hex'] or b'').decode('ascii'))
            off = int(case['hex'], 0)
            if mem != {off + i: b for i, b in enumerate(out)}:
                problems.append('.hex decodes to %d bytes at %s, expected %d bytes at %#x' % (len(mem), hex(min(mem)) if mem else None, len(out), off))
        except Exception as e:
            problems.append('.hex does not parse: %s' % e)
    elif now['hex'] != SENT['hex']:
        problems.append('.hex modified although --hex-offset was not given')
    if problems:
        ctx.violation('%s:success:%s' % (PROP, problems[0].split()[0].strip(':')), 'successful run argv %s: %s' % (argv, '; '.join(problems)), 'cli_case', case,
                      expected=dict(out=out, labels=labels), observed=obs)


def cli_task(ctx, cases):
    for c in cases:
        cli_case(ctx, c)
        ctx.count('cases')
    ctx.sample(cases[0], cap=1)


def subprocess_case(ctx, case):
    """the same configuration through a real process; must agree with the in-process observation model"""
    kernel.boot()
    base = trees.fresh_dir(os.path.join(kernel.scratch('_c17'), 'sub'))
    open(os.path.join(base, 'main.asm'), 'w').write(NATURAL[case['natural']] if case.get('natural') else PROGRAMS['labels'])
    files = {'out': os.path.join(base, 'o.bin'), 'labels': os.path.join(base, 'l.txt'), 'hex': os.path.join(base, 'o.bin.hex')}
    for k, p in files.items():
        open(p, 'wb').write(SENT[k])
    argv = ['main.asm', '-o', 'o.bin', '-l', 'l.txt'] + (['-c'] if case.get('compress') else []) + (['--hex-offset', case['hex']] if case.get('hex') is not None else [])
    env = dict(os.environ, PYTHONPATH=kernel.REPO)
    p = subprocess.run(['/venv/bin/python', '-c', 'import sys; sys.path.insert(0, %r); from bronzebeard.asm import cli_main; cli_main()' % kernel.REPO] + argv,
                       cwd=base, capture_output=True, text=True, env=env)
    ctx.count('runs')
    ctx.count('subprocess_runs')
    now = {k: open(pth, 'rb').read() for k, pth in files.items()}
    must_fail = bool(case.get('natural')) or case.get('hex') in HEX_INVALID
    if must_fail:
        ctx.count('failing_runs')
        changed = [k for k in files if now[k] != SENT[k]]
        if p.returncode == 0 or changed:
            ctx.violation('%s:subprocess:fail:%s' % (PROP, 'exit-0' if p.returncode == 0 else 'modified-' + '+'.join(changed)),
                          'real process %s exits %d and modified %s' % (argv, p.returncode, changed), 'subprocess_case', case, expected='non-zero exit, files untouched',
                          observed=dict(status=p.returncode, stderr=p.stderr[-200:]))
    else:
        ctx.count('successful_runs')
        asm = kernel.boot()
        labels = {}
        out = bytes(asm.assemble(os.path.join(base, 'main.asm'), compress=bool(case.get('compress')), labels=labels))
        if p.returncode != 0 or now['out'] != out or sorted(now['labels'].decode().splitlines(True)) != sorted('%s 0x%08x\n' % kv for kv in labels.items()):
            ctx.violation('%s:subprocess:success' % PROP, 'real process %s: exit %d, outputs differ from assemble()' % (argv, p.returncode), 'subprocess_case', case,
                          expected=dict(out=out, labels=labels), observed=dict(status=p.returncode, out=now['out'], labels=now['labels']))


def sequence_case(ctx, case):
    """several runs in ONE output directory (rebuilds): case = dict(steps=[dict(prog, hex, compress)]).  After every successful step the three files must describe THAT step:
    -o = its program, -l = its labels, and - when --hex-offset was given - a .hex that decodes to its bytes at its offset (an older .hex may stay only when the option is absent)."""
    asm = kernel.boot()
    base = trees.fresh_dir(os.path.join(kernel.scratch('_c17'), 'seq'))
    outp, labp, hexp = (os.path.join(base, n) for n in ('o.bin', 'l.txt', 'o.bin.hex'))
    for n, step in enumerate(case['steps']):
        main = os.path.join(base, 'main%d.asm' % n)
        open(main, 'w').write(PROGRAMS[step['prog']])
        argv = [main, '-o', outp, '-l', labp] + (['-c'] if step.get('compress') else []) + (['--hex-offset', step['hex']] if step.get('hex') is not None else [])
        hex_before = open(hexp, 'rb').read() if os.path.exists(hexp) else None
        ctx.count('runs')
        try:
            st, so, se = trees.run_cli(asm, argv, base)
        except BaseException as e:
            st, so, se = 'exception:' + type(e).__name__, '', repr(e)
        labels = {}
        out = bytes(asm.assemble(main, compress=bool(step.get('compress')), labels=labels))
        problems = []
        if st != 0:
            problems.append('exit %r: %s' % (st, se[-120:]))
        if not os.path.exists(outp) or open(outp, 'rb').read() != out:
            problems.append('-o does not hold the program of this step')
        if not os.path.exists(labp) or sorted(open(labp).read().splitlines(True)) != sorted('%s 0x%08x\n' % kv for kv in labels.items()):
            problems.append('-l does not hold the labels of this step')
        if step.get('hex') is not None:
            try:
                mem = D.read_ihex(open(hexp, 'rb').read().decode('ascii'))
                off = int(step['hex'], 0)
                if mem != {off + i: b for i, b in enumerate(out)}:
                    problems.append('.hex decodes to %d bytes at %s, this step wrote %d bytes at %#x' % (len(mem), hex(min(mem)) if mem else None, len(out), off))
            except Exception as e:
                problems.append('.hex unreadable: %r' % e)
        elif (open(hexp, 'rb').read() if os.path.exists(hexp) else None) != hex_before:
            problems.append('.hex modified although --hex-offset was not given')
        if problems:
            ctx.violation('%s:sequence:step%d:%s' % (PROP, n, problems[0].split(':')[0].split()[0]), 'rebuild sequence %s, step %d: %s' % (case['steps'], n, '; '.join(problems)), 'sequence_case', case,
                          expected='files describe step %d' % n, observed=problems)
            return
    ctx.count('successful_runs', len(case['steps']))


def extra_task(ctx, items):
    for name, case in items:
        DRIVERS[name](ctx, case)
        ctx.count('cases')


DRIVERS = {'cli_case': cli_case, 'subprocess_case': subprocess_case, 'sequence_case': sequence_case}


def run(tier, seed, t0):
    asm = kernel.boot()
    passes = discover_passes(asm)
    if len(passes) < 3:
        # a refactoring may have turned the passes into something the profiler-based discovery cannot see (methods, one big function): the injection family is
        # then skipped - visibly, in the evidence - rather than raising an alarm on code that may be perfectly right; natural failures still cover every pass
        print('note: pass discovery found only %r; fault injection at pass boundaries skipped' % passes)
        passes = []
    cases = []
    base_opts = list(itertools.product(PROGRAMS, (False, True), (None, 'rel', 'abs'), ('default', 'rel', 'abs')))
    # (1) no crash: all option sets x all hex values
    for prog, comp, lab, out in base_opts:
        for hx in HEX_VALID + HEX_INVALID:
            cases.append(dict(prog=prog, compress=comp, labels=lab, out=out, hex=hx, relmain=(lab == 'rel')))
    # (1b) verbose output and two -i directories holding the same file name (command-line order must be the search order)
    for prog, comp, lab, out in base_opts:
        for hx in (None, '0x08000000'):
            cases.append(dict(prog=prog, compress=comp, labels=lab, out=out, hex=hx, verbose=True))
            if prog == 'inc':
                cases.append(dict(prog=prog, compress=comp, labels=lab, out=out, hex=hx, two_inc=True, verbose=(lab == 'abs')))
    # (2) every pass x entry/exit x exception kind, on the option sets that write all three files
    crash_opts = [(p, c, l, o) for p, c, l, o in base_opts if l is not None]
    if tier == 'quick':
        crash_opts = [x for i, x in enumerate(crash_opts) if i % 2 == 0 or x[0] == 'labels']
    for name in passes:
        for when in ('entry', 'exit'):
            for kind in ('asm', 'foreign'):
                for prog, comp, lab, out in crash_opts:
                    cases.append(dict(prog=prog, compress=comp, labels=lab, out=out, hex='0x08000000', crash=['pass', name, when, kind]))
    # (3) naturally failing programs and invalid option values
    for key in NATURAL:
        for comp in (False, True):
            for lab, out in (('rel', 'rel'), ('abs', 'default'), ('abs', 'abs')):
                for hx in (None, '0x08000000'):
                    cases.append(dict(prog='plain', compress=comp, labels=lab, out=out, hex=hx, crash=['natural', key]))
    for what in ('bad-include-dir', 'missing-input'):
        for comp in (False, True):
            for lab, out in (('rel', 'rel'), ('abs', 'default')):
                cases.append(dict(prog='plain', compress=comp, labels=lab, out=out, hex='0', crash=['option', what]))
    m = kernel.explore(cli_task, list(kernel.chunks(cases, 50)))
    sub = [('subprocess_case', dict(natural=k, compress=c)) for k in list(NATURAL)[:: (1 if tier == 'thorough' else 3)] for c in (False, True)]
    sub += [('subprocess_case', dict(hex=h, compress=c)) for h in [None, '0x08000000'] + HEX_INVALID[:: (1 if tier == 'thorough' else 2)] for c in (False, True)]
    # rebuild sequences in one output directory: every ordered pair / triple of (program, hex option, mode) steps over a small step alphabet
    steps = [dict(prog=p, hex=h, compress=c) for p in ('plain', 'labels') for h in (None, '0', '0x08000000') for c in (False, True)]
    seqs = [[a, b] for a in steps for b in steps]
    seqs += [[a, b, c] for a in steps[::2] for b in steps[1::3] for c in steps if c['hex'] is not None]
    sub += [('sequence_case', dict(steps=q)) for q in seqs]
    m = kernel.explore(extra_task, list(kernel.chunks(sub, 8)), merged=m)
    n = m.n
    cov = dict(states=n['cases'], transitions=n['runs'], traces_validated_against_impl=n['runs'], evaluations=n['runs'], distinct_nontrivial=n['failing_runs'],
               rule='one state per (program, option set, crash point); one execution of the real cli_main each (plus real sub-processes for a sub-set); non-trivial = runs that must fail '
                    'while older output / label / hex files exist',
               exhaustive=True, passes_discovered=passes, successful_runs=n['successful_runs'], failing_runs=n['failing_runs'], subprocess_runs=n['subprocess_runs'],
               bound='4 programs x -c x 3 label-file options x 3 output options x 12 hex-offset values without crash (a sub-set again with -v and with two -i directories holding the same file); %d discovered pass functions x entry/exit x {AssemblerError, foreign exception} '
                     'x %d option sets; %d naturally failing programs x 2 modes x 3 file layouts x 2 hex options; invalid -i / missing input' % (len(passes), len(crash_opts), len(NATURAL)))
    return kernel.finish(PROP, tier, seed, t0, m, cov, [
        'in-process cli_main with argv / cwd / stdout / stderr owned by the driver, validated against real processes on a sub-set',
        'an exception escaping cli_main counts as a non-zero exit (the interpreter prints a traceback and exits 1)',
        'I/O errors and torn writes inside the output phase itself (unwritable -o directory, full disk) are out of scope'])
