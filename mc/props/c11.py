"""C11 - constants evaluate as integer arithmetic and substitute transparently (DESIGN.md section 3, C11).

(A) evaluation: all expression trees up to the stated depth over the documented operators and literal forms
(decimal / hex / binary leaves, earlier constants incl. a character constant), rendered fully parenthesised or with
minimal parentheses, with and without blanks; every printable ASCII character literal and the escapes.  Oracle: the
tree evaluated structurally with Python integer semantics; division by zero and negative shifts must be refused; the
`constants` dictionary must hold exactly the expected values.
(B) transparency: a constant written in every position the property names (I / S / U immediates, shift amounts, every
register field of every format incl. pseudo-instruction arguments and c.*, data values, inside %hi / %lo /
%position, li) must produce the same bytes as the literal value / literal register, compression off and on.
"""
import itertools
import operator

from mc import kernel

PROP = 'C11'

BIN = {'+': (operator.add, 5), '-': (operator.sub, 5), '*': (operator.mul, 6), '//': (operator.floordiv, 6), '%': (operator.mod, 6),
       '<<': (operator.lshift, 4), '>>': (operator.rshift, 4), '&': (operator.and_, 3), '^': (operator.xor, 2), '|': (operator.or_, 1)}
UN = {'~': operator.invert, '-': operator.neg}
LEAVES = [('0', 0), ('1', 1), ('2', 2), ('3', 3), ('7', 7), ('0x10', 16), ('0b101', 5), ('E', 6), ('C', 65)]
PRELUDE = ['E = 6', "C = 'A'"]
BIG = 1 << 70


class Refuse(Exception):
    pass


def ev(t):
    if t[0] == 'leaf':
        return t[2]
    if t[0] == 'un':
        return UN[t[1]](ev(t[2]))
    a, b = ev(t[2]), ev(t[3])
    op = t[1]
    if op in ('//', '%') and b == 0:
        raise Refuse('division by zero')
    if op in ('<<', '>>'):
        if b < 0:
            raise Refuse('negative shift')
        if b > 64:
            raise OverflowError
    v = BIN[op][0](a, b)
    if abs(v) > BIG:
        raise OverflowError
    return v


def render(t, style):
    """style: 0 full parens + blanks, 1 minimal parens + blanks, 2 minimal parens no blanks, 3 full parens no blanks"""
    full, sp = style in (0, 3), (' ' if style in (0, 1) else '')

    def prec(x):
        return 9 if x[0] == 'leaf' else (7 if x[0] == 'un' else BIN[x[1]][1])

    def r(x, top=False):
        if x[0] == 'leaf':
            return x[1]
        if x[0] == 'un':
            inner = r(x[2])
            if x[2][0] == 'bin' and not full:
                inner = '(' + inner + ')'
            s = x[1] + inner
            return '(' + s + ')' if full and not top else s
        p = BIN[x[1]][1]
        a, b = r(x[2]), r(x[3])
        if not full:
            if prec(x[2]) < p:
                a = '(' + a + ')'
            if prec(x[3]) <= p:
                b = '(' + b + ')'
        s = a + sp + x[1] + sp + b
        return '(' + s + ')' if full and not top else s
    return r(t, True)


def leaf(i):
    return ('leaf',) + LEAVES[i]


def trees(tier):
    L = [leaf(i) for i in range(len(LEAVES))]
    d1 = [('bin', op, a, b) for op in BIN for a in L for b in L] + [('un', op, a) for op in UN for a in L]
    yield from L
    yield from d1
    few = [leaf(i) for i in (0, 1, 3, 5)]
    for op in BIN:
        for t in d1:
            for l in few:
                yield ('bin', op, t, l)
                yield ('bin', op, l, t)
    for op in UN:
        for t in d1:
            yield ('un', op, t)
    # both operands composite: all operator triples over a small leaf set
    small = [leaf(i) for i in ((1, 3, 7) if tier == 'quick' else (0, 1, 3, 7, 5))]
    for o1 in BIN:
        for o2 in BIN:
            for o3 in BIN:
                for a, b, c, d in itertools.product(small, repeat=4):
                    yield ('bin', o1, ('bin', o2, a, b), ('bin', o3, c, d))
    if tier == 'thorough':
        # depth 3 spines: op(op(op(l, l), l), l) and the right-leaning mirror, all operator triples
        for o1 in BIN:
            for o2 in BIN:
                for o3 in BIN:
                    for a, b, c, d in itertools.product(small[:4], repeat=4):
                        yield ('bin', o1, ('bin', o2, ('bin', o3, a, b), c), d)
                        yield ('bin', o1, a, ('bin', o2, b, ('bin', o3, c, d)))


def eval_lines(ctx, case):
    """case = dict(lines=[(name, text, expected|None)]) : constants K.. defined by expressions"""
    asm = kernel.boot()
    lines = case['lines']
    src = '\n'.join(PRELUDE + ['%s = %s' % (n, t) for n, t, e in lines]) + '\n'
    consts = {}
    ctx.count('programs')
    ctx.count('lines', len(lines))
    try:
        out = asm.assemble(src, constants=consts)
        err = None
    except Exception as e:
        err = e
    if len(lines) == 1:
        n, t, want = lines[0]
        if want is None:
            ctx.count('must_refuse')
            if err is None:
                ctx.violation('%s:eval:accepted-undefined' % PROP, '%r is accepted (= %r) although it divides by zero / shifts by a negative amount' % (t, consts.get(n)),
                              'eval_lines', case, expected='refused', observed=consts.get(n))
        elif err is not None:
            ctx.violation('%s:eval:refused' % PROP, '%r is refused: %s' % (t, kernel.errline(err)), 'eval_lines', case, expected=want, observed=repr(err)[:200])
        elif consts.get(n) != want or type(consts.get(n)) is not int:
            ctx.violation('%s:eval:wrong-value' % PROP, '%r evaluates to %r, expected %d' % (t, consts.get(n), want), 'eval_lines', case, expected=want, observed=consts.get(n))
        return
    bad = err is not None or len(out) != 0 or set(consts) != {'E', 'C'} | {n for n, t, e in lines} or any(consts.get(n) != e for n, t, e in lines) \
        or consts.get('E') != 6 or consts.get('C') != 65
    if bad:
        ctx.count('programs', -1)
        ctx.count('lines', -len(lines))
        for l in lines:
            eval_lines(ctx, dict(lines=[l]))


REDEF = [   # a name defined more than once: every singly defined constant still equals its own expression over the definitions in front of it
    (['OFF = 0', 'A = OFF', 'OFF = OFF + 4', 'B = OFF', 'OFF = OFF + 4', 'D = OFF * 2'], dict(A=0, B=4, D=16)),
    (['X = 1', 'Y = X', 'X = 2', 'Z = X', 'X = Y + Z + 7', 'W = X'], dict(Y=1, Z=2, W=10)),
    (['N = 3', 'M = N << 1', 'N = M', 'P = N + 1'], dict(M=6, P=7)),
    (['T = 5', 'T = 5', 'U = T'], dict(U=5)),
    (['A1 = 1', 'B1 = A1 + 1', 'A1 = B1 + 1', 'B2 = A1 + 1', 'A1 = B2 + 1', 'B3 = A1 + 1'], dict(B1=2, B2=4, B3=6)),
]


def redef_case(ctx, case):
    asm = kernel.boot()
    lines, want = REDEF[case['i']]
    # the definitions alone, and interleaved with code / data that use the singly defined names
    for variant in ('plain', 'with-uses'):
        src = list(lines)
        if variant == 'with-uses':
            src = src + ['dw %s' % k for k in want] + ['addi x8, x8, %s' % k for k in want]
        consts = {}
        ctx.count('programs')
        ctx.count('lines', len(src))
        try:
            out = bytes(asm.assemble('\n'.join(src) + '\n', constants=consts))
        except Exception as e:
            ctx.violation('%s:redef:refused' % PROP, 'definitions %s are refused: %s' % (lines, kernel.errline(e)), 'redef_case', case, expected=want, observed=repr(e)[:200])
            return
        got = {k: consts.get(k) for k in want}
        if got != want:
            ctx.violation('%s:redef:wrong-value' % PROP, 'definitions %s give %s, expected %s' % (lines, got, want), 'redef_case', case, expected=want, observed=got)
        elif variant == 'with-uses':
            exp = b''.join((v & 0xffffffff).to_bytes(4, 'little') for v in want.values()) + bytes(asm.assemble('\n'.join('addi x8, x8, %d' % v for v in want.values()) + '\n'))
            if out != exp:
                ctx.violation('%s:redef:wrong-bytes' % PROP, 'uses of %s after %s emit %s, expected %s' % (list(want), lines, out.hex(), exp.hex()), 'redef_case', case, expected=exp, observed=out)


def redef_task(ctx, cases):
    for c in cases:
        redef_case(ctx, c)


def eval_task(ctx, task):
    good, n = [], 0
    for i, t in enumerate(task['trees']):
        style = (i + task['style0']) % 4
        styles = range(4) if task['all_styles'] else [style]
        try:
            want = ev(t)
        except Refuse:
            want = None
        except OverflowError:
            ctx.count('skipped_too_big')
            continue
        for st in styles:
            n += 1
            line = ('K%d' % n, render(t, st), want)
            if want is None:
                eval_lines(ctx, dict(lines=[line]))
            else:
                good.append(line)
    for ch in kernel.chunks(good, 400):
        eval_lines(ctx, dict(lines=ch))
    if good:
        ctx.sample(dict(part='eval', expr=good[len(good) // 2][1], value=good[len(good) // 2][2]), cap=1)


def char_case(ctx, case):
    asm = kernel.boot()
    consts = {}
    ctx.count('programs')
    ctx.count('lines')
    try:
        asm.assemble('%sQ = %s\n' % (case.get('indent', ''), case['text']), constants=consts)
        got = consts.get('Q')
    except Exception as e:
        got = '%s: %s' % (type(e).__name__, kernel.errline(e)[:100])
    if got != case['want']:
        ctx.violation('%s:char:%s' % (PROP, case['name']), 'character literal %s evaluates to %r, expected %d' % (case['text'], got, case['want']),
                      'char_case', case, expected=case['want'], observed=got)


def char_task(ctx, cases):
    for c in cases:
        char_case(ctx, c)
    ctx.sample(dict(part='char', text=cases[0]['text'], want=cases[0]['want']), cap=1)


# ---------------------------------------------------------------------------------------------------------------
# transparency
# ---------------------------------------------------------------------------------------------------------------

INT_TEMPLATES = [     # (template, value)   {} = the integer operand
    ('addi x8, x8, {}', 5), ('addi x5, x6, {}', -2048), ('addi x2, x2, {}', 32), ('addi x8, x2, {}', 16), ('andi x8, x8, {}', 7), ('xori x5, x6, {}', 2047),
    ('lw x9, x8, {}', 8), ('lw x9, {}(x8)', 8), ('lw x5, x2, {}', 12), ('lb x5, x6, {}', -1), ('sw x8, x9, {}', 4), ('sw x9, {}(x8)', 4), ('sb x5, x6, {}', 3),
    ('jalr x0, x1, {}', 0), ('jalr x1, {}(x5)', 8), ('lui x8, {}', 5), ('lui x5, {}', 0xfffff), ('auipc x5, {}', 1),
    ('slli x8, x8, {}', 3), ('srli x9, x9, {}', 31), ('srai x8, x8, {}', 1), ('slli x5, x6, {}', 0),
    ('li x8, {}', 5), ('li x8, {}', 0x12345678), ('li x5, {}', -1), ('li x9, {}', 2048),
    ('lui x5, %hi({})', 0x12345fff), ('addi x5, x5, %lo({})', 0x12345fff), ('lui x5, %hi {}', 0x800), ('li x5, %position(L0, {})', 0x08000000),
    ('dw %position(L0, {})', 0x20000000), ('db {}', 255), ('db {}', -1), ('dh {}', 0x1234), ('dw {}', 0x12345678), ('dd {}', 0x1122334455667788),
    ('pack <I {}', 7), ('pack >h, {}', -2), ('pack <B {}', 200),
    ('csrrw x1, x2, {}', 0x300), ('csrrs x5, x0, {}', -1024),
    ('c.addi x8, {}', 5), ('c.li x8, {}', -1), ('c.lui x8, {}', 3), ('c.slli x8, {}', 4), ('c.srli x8, {}', 2), ('c.srai x9, {}', 31), ('c.andi x8, {}', -32),
    ('c.lw x8, x9, {}', 4), ('c.lw x8, {}(x9)', 124), ('c.sw x8, x9, {}', 8), ('c.addi16sp {}', -64), ('c.addi4spn x8, {}', 1020), ('c.lwsp x5, {}', 252),
    ('c.swsp x5, {}', 4),
    # (no c.j / c.jal / c.beqz / c.bnez: like for jal and beq a NAME in that position is a label-style reference, not an offset)
]
REG_TEMPLATES = [     # {} = a register operand
    'add {}, x1, x2', 'add x1, {}, x2', 'add x1, x2, {}', 'sub {}, {}, x9', 'and x8, x8, {}', 'mul {}, x5, x6', 'slli {}, x8, 3', 'slli x8, {}, 3',
    'addi {}, x8, 1', 'addi x8, {}, 1', 'addi {}, {}, 1', 'lw {}, x2, 4', 'lw x5, {}, 4', 'lw x9, 4({})', 'jalr {}, x1, 0', 'jalr x0, {}, 0',
    'sw {}, x9, 4', 'sw x8, {}, 4', 'sw x9, 4({})', 'beq {}, x0, 8', 'beq x8, {}, 8', 'bne {}, {}, -4', 'lui {}, 1', 'auipc {}, 1', 'jal {}, 8',
    'csrrw {}, x2, 0x300', 'csrrw x1, {}, 0x300', 'amoadd.w {}, x9, x10', 'amoadd.w x8, {}, x10', 'amoadd.w x8, x9, {}', 'amoswap.w {}, {}, {}, 1, 1', 'amoswap.w {}, x9, x10, 1, 0', 'amoor.w x8, {}, x10, 0, 1', 'sc.w x5, x9, {}, 1, 0', 'amoadd.w {}, {}, x10, 0, 1',
    'lr.w {}, x9', 'lr.w x8, {}', 'sc.w x5, {}, x6',
    'c.mv {}, x9', 'c.mv x9, {}', 'c.add {}, {}', 'c.lw {}, x9, 4', 'c.lw x9, {}, 4', 'c.lw x9, 4({})', 'c.sw {}, x9, 0', 'c.sw x9, {}, 0', 'c.addi {}, 1', 'c.li {}, 1',
    'c.lui {}, 1', 'c.slli {}, 1', 'c.srli {}, 1', 'c.andi {}, 1', 'c.sub {}, x9', 'c.and x9, {}', 'c.jr {}', 'c.jalr {}', 'c.swsp {}, 4', 'c.lwsp {}, 4',
    'c.addi4spn {}, 4', 'c.beqz {}, 4',
    'mv {}, x9', 'mv x9, {}', 'not {}, {}', 'neg {}, x5', 'seqz x5, {}', 'snez {}, x9', 'sltz {}, {}', 'sgtz x8, {}', 'li {}, 5', 'li {}, 0x12345',
    'beqz {}, L0', 'bnez {}, L0', 'blez {}, L0', 'bgez {}, L0', 'bltz {}, L0', 'bgtz {}, L0', 'bgt {}, x9, L0', 'ble x9, {}, L0', 'bgtu {}, {}, L0', 'bleu {}, x5, L0',
    'jr {}', 'jalr {}',
]
REG_DEFS = [('R', 'x8', 'x8'), ('R', '8', 'x8'), ('R', 's0', 'x8'), ('R', 'fp', 'x8'), ('R', 'x9', 'x9'), ('R', 'a5', 'x15'), ('R', '0x0f', 'x15'), ('R', 'x5', 'x5'),
            ('R', 'ra', 'x1'), ('R', 'sp', 'x2'), ('R', 'zero', 'x0'), ('R', '0', 'x0'), ('R', 'x0', 'x0'), ('R', 'x31', 'x31'), ('R', '16', 'x16')]


def transparency_case(ctx, case):
    """case = dict(defs=[...], with_const, literal, kind): both programs in both modes must give the same bytes"""
    asm = kernel.boot()
    a = '\n'.join(['L0:'] + case['defs'] + [case['with_const']]) + '\n'
    b = '\n'.join(['L0:', case['literal']]) + '\n'
    for comp in (False, True):
        ctx.count('programs', 2)
        ctx.count('pairs')
        res = []
        for src in (a, b):
            try:
                res.append(bytes(asm.assemble(src, compress=comp)))
            except Exception as e:
                res.append('%s: %s' % (type(e).__name__, kernel.errline(e)[:120]))
        if isinstance(res[1], str):
            ctx.count('literal_refused')      # the literal form itself is not accepted: nothing to compare (C06's business)
            continue
        ctx.count('compared')
        if res[0] != res[1]:
            ctx.violation('%s:transparency:%s:%s:%s' % (PROP, case['kind'], case['with_const'].split()[0] if '\n' not in case['with_const'] else 'program', 'c' if comp else 'u'),
                          '%r with %s gives %s, the literal %r gives %s (compress=%s)' % (case['with_const'], case['defs'], res[0].hex() if isinstance(res[0], bytes) else res[0],
                                                                                           case['literal'], res[1].hex(), comp),
                          'transparency_case', case, expected=res[1], observed=res[0])


def transparency_task(ctx, cases):
    for c in cases:
        transparency_case(ctx, c)
    ctx.sample(dict(part='transparency', with_const=cases[0]['with_const'], literal=cases[0]['literal'], defs=cases[0]['defs']), cap=1)


DRIVERS = {'eval_lines': eval_lines, 'char_case': char_case, 'transparency_case': transparency_case, 'redef_case': redef_case}


def batch_cases():
    """many constant-using lines in ONE program (state carried from line to line must not matter): all register templates with two different aliases
    alternating, and all integer templates, against the same program written with literals"""
    cases = []
    defs = ['R = x8', 'Q = x9', 'RR = s0', 'K = 5']
    regs = [t for t in REG_TEMPLATES if 'L0' not in t]
    for names, lits in ((('R', 'Q'), ('x8', 'x9')), (('Q', 'RR'), ('x9', 'x8'))):
        for rot in range(3):
            a = [t.replace('{}', names[(i + rot) % 2]) if (i + rot) % 3 else t.replace('{}', lits[i % 2]) for i, t in enumerate(regs)]
            b = [t.replace('{}', lits[(i + rot) % 2]) if (i + rot) % 3 else t.replace('{}', lits[i % 2]) for i, t in enumerate(regs)]
            for chunk in range(0, len(a), 12):
                cases.append(dict(kind='reg-batch', defs=defs, with_const='\n'.join(a[chunk:chunk + 12]), literal='\n'.join(b[chunk:chunk + 12])))
    ints = [(t, v) for t, v in INT_TEMPLATES if 'L0' not in t]
    for chunk in range(0, len(ints), 10):
        sub = ints[chunk:chunk + 10]
        d = ['K%d = %d' % (i, v) for i, (t, v) in enumerate(sub)]
        cases.append(dict(kind='int-batch', defs=d, with_const='\n'.join(t.format('K%d' % i) for i, (t, v) in enumerate(sub)), literal='\n'.join(t.format(v) for t, v in sub)))
    return cases


def edge_cases():
    """whole programs: a forward / backward transfer over n compressible instructions whose registers are written through aliases; n around the sizes at which the
    transfer fits its compressed form only once the body has shrunk (c.beqz 256, c.j 2048) - alias spelling and literal spelling must give the same bytes"""
    cases = []
    defs = ['R = x8', 'Q = s1', 'K = 1']
    for n in (61, 62, 63, 64, 65, 70, 126, 127, 128, 129, 510, 511, 512, 513, 600, 1022, 1023, 1024):
        for xfer in ('beq x8, x0, done', 'bne R, x0, done', 'jal x0, done', 'j done'):
            if xfer.startswith('b') and n > 140:
                continue
            body_a = ['addi R, R, K' if i % 2 else 'add Q, Q, R' for i in range(n)]
            body_l = ['addi x8, x8, 1' if i % 2 else 'add x9, x9, x8' for i in range(n)]
            lit = xfer.replace('R', 'x8')
            cases.append(dict(kind='edge-fwd', defs=defs, with_const='\n'.join([xfer] + body_a + ['done:', 'nop']), literal='\n'.join([lit] + body_l + ['done:', 'nop'])))
            cases.append(dict(kind='edge-bwd', defs=defs, with_const='\n'.join(['done:'] + body_a + [xfer]), literal='\n'.join(['done:'] + body_l + [lit])))
    return cases


def transparency_cases():
    cases = batch_cases() + edge_cases()
    for tmpl, v in INT_TEMPLATES:
        lit = tmpl.format(v)
        cases.append(dict(kind='int', defs=['K = %d' % v], with_const=tmpl.format('K'), literal=lit))
        cases.append(dict(kind='int-hex', defs=['K = %s' % (hex(v) if v >= 0 else '-' + hex(-v))], with_const=tmpl.format('K'), literal=lit))
        cases.append(dict(kind='int-chain', defs=['J = %d' % (v - 3), 'K = J + 3'], with_const=tmpl.format('K'), literal=lit))
        # an *expression* operand is part of the grammar only where an immediate is parsed: not in `imm(reg)` and not in the shift amount (a register field)
        if '{}(' not in tmpl and tmpl.split()[0] not in ('slli', 'srli', 'srai'):
            cases.append(dict(kind='int-expr', defs=['J = %d' % (v - 1)], with_const=tmpl.format('J + 1'), literal=lit))
    for tmpl in REG_TEMPLATES:
        for name, defn, lit in REG_DEFS:
            cases.append(dict(kind='reg', defs=['%s = %s' % (name, defn)], with_const=tmpl.replace('{}', name), literal=tmpl.replace('{}', lit)))
        cases.append(dict(kind='reg-chain', defs=['Q = x8', 'R = Q'], with_const=tmpl.replace('{}', 'R'), literal=tmpl.replace('{}', 'x8')))
    return cases


def char_cases():
    cases = []
    for c in range(0x20, 0x7f):
        ch = chr(c)
        text = "'\\''" if ch == "'" else ("'\\\\'" if ch == '\\' else "'%s'" % ch)
        cases.append(dict(name='ascii-%02x' % c, text=text, want=c))
    for esc, v in (('\\n', 10), ('\\t', 9), ('\\r', 13), ('\\0', 0), ('\\x41', 0x41), ('\\x7f', 0x7f), ('\\"', 34)):
        cases.append(dict(name='escape-' + esc.strip('\\'), text="'%s'" % esc, want=v))
    cases.append(dict(name='indented', text="'?'", want=63, indent='    '))
    return cases


def run(tier, seed, t0):
    ts = list(trees(tier))
    tasks = [dict(trees=ch, style0=i, all_styles=True) for i, ch in enumerate(kernel.chunks(ts, 4000))]
    m = kernel.explore(eval_task, tasks)
    m = kernel.explore(char_task, list(kernel.chunks(char_cases(), 16)), merged=m)
    m = kernel.explore(redef_task, [[dict(i=i)] for i in range(len(REDEF))], merged=m)
    tc = transparency_cases()
    m = kernel.explore(transparency_task, list(kernel.chunks(tc, 40)), merged=m)
    n = m.n
    cov = dict(states=n['lines'] + n['pairs'], transitions=n['programs'], traces_validated_against_impl=n['lines'] + n['compared'],
               evaluations=n['lines'] + n['pairs'], distinct_nontrivial=n['lines'] - n['must_refuse'] + n['compared'],
               rule='(A) one state per rendered expression (tree x rendering style), evaluated by the real assembler inside a batch of 400 constant definitions and compared with the '
                    'structural evaluation; (B) one state per (position template, constant definition style, mode): constant program vs literal program. non-trivial = expressions '
                    'with a defined value + pairs whose literal form is accepted',
               exhaustive=True, trees=len(ts), must_refuse=n['must_refuse'], skipped_too_big=n['skipped_too_big'], transparency_pairs=n['pairs'], literal_refused=n['literal_refused'],
               bound='trees: all leaves, all depth-1 trees over 10 binary + 2 unary operators and 9 leaves, depth-2 trees with one composite operand (4 leaves on the other side), all operator '
                     'triples with both operands composite%s; 95 printable ASCII character literals + 7 escapes; %d integer positions x 4 definition styles, %d register positions x 11 '
                     'alias definitions, both modes' % (' and depth-3 spines' if tier == 'thorough' else '', len(INT_TEMPLATES), len(REG_TEMPLATES)))
    return kernel.finish(PROP, tier, seed, t0, m, cov, [
        'Python integer semantics is the documented evaluation rule; trees are bounded by value (|v| <= 2^70, shifts <= 64)',
        'character literals are demanded stand-alone (as documented) and through earlier constants, not inside larger expressions',
        'positions outside the property\'s list (fence sets, aq/rl, numeric sequences, align) and bare names as branch / jump targets (documented to be label references) are not demanded'])
