"""C12 - a program that assembles without compression also assembles with it (DESIGN.md section 3, C12).

History explorer over the layout alphabets (S1 tree, span programs, operand-edge space) plus the symbolic-operand
family the property names: shift amounts written as constants / aliases / register names / hex, label-dependent
immediates on every RVC-eligible instruction with the label 0..3 items away, far call/tail.
Oracle: outcome(compress=False) = bytes  =>  outcome(compress=True) = bytes.  Any exception type counts as failure.
"""
import sys

from mc import kernel, progs, layoutrun
from mc.ref import layout as L

PROP = 'C12'
RULE = ('states = distinct programs, each assembled with compression off and on; a trace is validated when the uncompressed build succeeded and the compressed '
        'outcome was compared; non-trivial = programs accepted without -c that contain at least one instruction an RVC rule could apply to')


def culprit(items, r):
    """the source item the failing build points at (line number of the AssemblerError, else the last line)"""
    n = getattr(getattr(r.exc, 'line', None), 'number', None)
    if isinstance(n, int) and 1 <= n <= len(items):
        return items[n - 1]
    return None


def align_between(items, it):
    """is there an `align` strictly between item `it` and (the definition of) a label it refers to?"""
    try:
        i = next(n for n, x in enumerate(items) if x is it)
    except StopIteration:
        return False
    for name in L.refs(it):
        for j, x in enumerate(items):
            if x['k'] == 'label' and x['name'] == name:
                lo, hi = min(i, j), max(i, j)
                # (an `align 2` does not count: every shrink step is a multiple of 2, so its padding is the same in both modes)
                if any(y['k'] == 'align' and y['n'] > 2 for y in items[lo + 1:hi]):
                    return True
    return False


BRANCH_HEADS = {'beq', 'bne', 'blt', 'bge', 'bltu', 'bgeu', 'beqz', 'bnez', 'blez', 'bgez', 'bltz', 'bgtz', 'bgt', 'ble', 'bgtu', 'bleu'}


def const_target_at_reach(items, u, it):
    """D19b is about an ABSOLUTE target whose distance, already at the edge of the 32-bit form's reach without -c (+-4 KiB for branches, +-1 MiB for jal / near call / tail),
    grows when the code in front shrinks.  Only such cases carry the tag: a constant target that a compressed form was wrongly chosen for (distance around 256 / 2048) does not."""
    names = set(L.refs(it))
    vals = [i['value'] for i in items if i['k'] == 'const' and i.get('name') in names and 'value' in i]
    if not vals:
        return False
    try:
        idx = next(n for n, x in enumerate(items) if x is it)
        pos = u.walk.places[idx][0]
    except Exception:
        return False
    reach = 4096 if progs.head(it) in BRANCH_HEADS else (1 << 20)
    return any(abs(v - pos) >= reach - 64 for v in vals)


def judge(ctx, items, res, driver, case):
    u, c = res[False], res[True]
    if u.status != 'ok':
        ctx.count('refused_uncompressed')
        return
    ctx.count('compared')
    if c.status == 'ok':
        return
    it = culprit(items, c)
    cls = 'refused' if c.status == 'refused' else 'raw:' + c.etype
    if it is not None and const_target_at_reach(items, u, it):
        cls += ':const-target'          # the operand names a CONSTANT (an absolute address) that sits at the very edge of what the 32-bit instruction reaches
    if it is not None and align_between(items, it):
        cls += ':align-between'         # an align lies between the culprit and a label it refers to (its padding can grow when code in front shrinks)
    key = '%s:%s:%s:%s' % (PROP, progs.head(it) if it else 'program', progs.spec_class(it) if it else '-', cls)
    msg = kernel.errline(c.exc)
    ctx.violation(key, 'assembles without -c (%d bytes) but with -c fails at %r: %s' % (len(u.out), it['text'][:60] if it else '?', msg[:160]),
                  driver, case, expected='accepted with -c as well', observed=repr(c.exc)[:300])


def nontrivial(items, res):
    return res[False].status == 'ok' and any(it['k'] in ('inst', 'li', 'call', 'tail') for it in items)


LABIMM = [
    progs.sym('lwL', lambda l: progs.I('lw', rd=8, rs1=8, imm=('label', l)), 'ref'),
    progs.sym('swL', lambda l: progs.I('sw', rs1=8, rs2=9, imm=('label', l)), 'ref'),
    progs.sym('lwspL', lambda l: progs.I('lw', rd=5, rs1=2, imm=('label', l)), 'ref'),
    progs.sym('addiL', lambda l: progs.I('addi', rd=8, rs1=8, imm=('label', l)), 'ref'),
    progs.sym('addispL', lambda l: progs.I('addi', rd=2, rs1=2, imm=('label', l)), 'ref'),
    progs.sym('addi4spnL', lambda l: progs.I('addi', rd=8, rs1=2, imm=('label', l)), 'ref'),
    progs.sym('liregL', lambda l: progs.I('addi', rd=8, rs1=0, imm=('label', l)), 'ref'),
    progs.sym('andiL', lambda l: progs.I('andi', rd=8, rs1=8, imm=('label', l)), 'ref'),
    progs.sym('luiL', lambda l: progs.I('lui', rd=8, imm=('label', l)), 'ref'),
    progs.sym('liLab', lambda l: L.li(8, ('label', l)), 'ref'),
    progs.sym('liLabm', lambda l: L.li(8, ('add', ('label', l), -2)), 'ref'),
    progs.sym('liPos', lambda l: L.li(8, ('position', l, 0x1000)), 'ref'),
    progs.sym('jalrL', lambda l: progs.I('jalr', rd=0, rs1=1, imm=('label', l)), 'ref'),
]


def alphabet(tier):
    syms = (progs.pick(LABIMM, 'lwL', 'addiL', 'addispL', 'liLab', 'luiL') + progs.pick(progs.XFER, 'beq8', 'jal0', 'call') +
            progs.pick(progs.CODE_C, 'addi8') + progs.pick(progs.CODE_N, 'add567') + progs.pick(progs.VAR, 'li1') +
            progs.pick(progs.DATA, 'dh') + progs.pick(progs.ALIGN, 'al4') + progs.pick(progs.NEGARITH, 'addiNeg', 'dbNeg') + [progs.DEF])
    if tier == 'thorough':
        syms += progs.pick(progs.NEGARITH, 'liNeg', 'lwNeg', 'addiNeg9')
        syms += progs.pick(LABIMM, 'swL', 'lwspL', 'addi4spnL', 'liregL', 'andiL') + progs.pick(progs.XFER, 'tail', 'bne56')
    return progs.instantiate(syms, ['A'])


def depth(tier):
    return 4


DEEP = 5       # thorough: additionally all closed programs of <= 5 lines over the quick alphabet


SHIFT_SPELL = ['3', '0x3', '0b11', 'S', 'S3', 'T', 't0', 'x3', 'zero', '0', '31', 'S31', '(S)', 'S + 1']


def symbolic_programs():
    """constants / aliases / register names in every position an RVC rule inspects"""
    consts = [L.const('S', '3'), L.const('S3', '1 + 2'), L.const('T', 't0'), L.const('S31', '31'), L.const('R8', 'x8'), L.const('R9', 's1'),
              L.const('SP', 'sp'), L.const('Z', 'zero'), L.const('K4', '4'), L.const('K16', '16'), L.const('KM', '-1')]

    def line(text):
        return dict(k='inst', mn='?', f={}, text=text)
    lines = []
    for mn in ('slli', 'srli', 'srai'):
        for rd in ('x8', 'R8', 's0', '8', 'x1', 'x0'):
            for sh in SHIFT_SPELL:
                lines.append('%s %s, %s, %s' % (mn, rd, rd, sh))
    for rd, rs in (('R8', 'R8'), ('R8', 'R9'), ('x8', 'R9'), ('SP', 'SP'), ('R8', 'SP'), ('R8', 'Z'), ('Z', 'Z'), ('x1', 'R8')):
        for imm in ('1', 'K4', 'K16', 'KM', '0', 'K4 * 2', '(K16)', "'A' - 64"):
            lines.append('addi %s, %s, %s' % (rd, rs, imm))
            lines.append('andi %s, %s, %s' % (rd, rs, imm))
        for imm in ('K4', '0', 'K4 * 2', 'K16 + K4'):
            lines.append('lw %s, %s, %s' % (rd, rs, imm))
            lines.append('lw %s, %s(%s)' % (rd, imm.replace(' ', ''), rs))
            lines.append('sw %s, %s, %s' % (rs, rd, imm))
        for op in ('add', 'sub', 'and', 'or', 'xor'):
            lines.append('%s %s, %s, %s' % (op, rd, rd, rs))
            lines.append('%s %s, %s, %s' % (op, rd, 'Z', rs))
        lines.append('lui %s, K4' % rd)
        lines.append('jalr Z, %s, 0' % rd)
        lines.append('jalr x1, 0(%s)' % rd)
        lines.append('mv %s, %s' % (rd, rs))
        lines.append('li %s, K16' % rd)
        lines.append('beq %s, Z, 8' % rd)
        lines.append('jal Z, K16')
    # immediates written as expressions with every operator at top level (a compression rule may not rebuild the operand text)
    def exprs(v):
        out = ['%d + 3 - 3' % v, '(%d)' % v, '%d | 0' % v, '%d & -1' % v, '%d ^ 0' % v, '%d // 2' % (v * 2), '~%d' % ~v, '- %d' % -v, '%d * 1' % v, '%d %% 0x100000000' % v if v >= 0 else '%d + 0' % v]
        if v >= 0:
            out += ['%d >> 1' % (v * 2), '%d << 1' % (v // 2) if v % 2 == 0 else '%d << 0' % v, '%d >> 12' % (v << 12)]
        return out
    for tmpl, v in (('lui x8, {}', 0xfffff), ('lui x8, {}', 0xfffe0), ('lui x9, {}', 5), ('lui x8, {}', -1), ('addi x8, x8, {}', 4), ('addi x8, x8, {}', -32), ('addi x2, x2, {}', 496),
                    ('addi x2, x2, {}', -512), ('addi x9, x2, {}', 1020), ('lw x8, x9, {}', 124), ('sw x8, x9, {}', 4), ('lw x5, x2, {}', 252), ('sw x2, x5, {}', 252),
                    ('andi x8, x8, {}', -1), ('andi x9, x9, {}', 31), ('addi x8, x0, {}', -32), ('jal x0, {}', 2046), ('jal x1, {}', -2048), ('beq x8, x0, {}', 254),
                    ('bne x9, x0, {}', -256), ('jalr x0, x1, {}', 0), ('c.lui x8, {}', 0xfffe0), ('c.addi x8, {}', 31)):
        for e in exprs(v):
            lines.append(tmpl.format(e))
    for ln in lines:
        yield consts + [line(ln)]
    # several together (an earlier compression shifts later positions)
    for i in range(0, len(lines), 16):
        yield consts + [line(ln) for ln in lines[i:i + 16]]


def near_label_programs():
    """label-dependent immediates on every RVC-eligible instruction, the label 0..3 items away, before or after"""
    fill = [progs.I('addi', rd=8, rs1=8, imm=1), L.li(9, 1), L.align(4), L.data('dh 2', b'\x02\x00'), progs.I('add', rd=5, rs1=6, rs2=7)]
    import itertools
    for s in LABIMM:
        for n in range(4):
            for between in itertools.product(fill, repeat=n):
                for pad in (0, 2, 4, 14, 16, 30, 32, 124, 128, 252, 256, 508, 512, 1020, 1024, 2044, 2048, 4092, 4096):
                    pre = [L.gap(pad)] if pad else []
                    yield pre + [s[1]('A')] + list(between) + [L.label('A'), progs.I('add', rd=5, rs1=6, rs2=7)]
                    yield pre + [L.label('A')] + list(between) + [s[1]('A')]


def labeldiff_programs(k):
    """the SIZE of a stretch of code (B - A) used as an operand: it shrinks when the stretch is compressed"""
    import itertools
    fill = [progs.I('addi', rd=8, rs1=8, imm=1), progs.I('add', rd=5, rs1=6, rs2=7), L.li(9, 1), progs.I('jal', rd=0, imm=('offset', 'B'))]
    d = ('diff', 'B', 'A')
    users = [L.cinst('c.sw', rs1=8, rs2=9, imm=d), L.cinst('c.lw', rd=8, rs1=9, imm=d), L.cinst('c.addi', rd=8, imm=d), L.cinst('c.addi16sp', imm=d), L.cinst('c.lwsp', rd=5, imm=d),
             L.cinst('c.slli', rd=8, imm=d), L.cinst('c.addi4spn', rd=8, imm=d), progs.I('lw', rd=8, rs1=9, imm=d), progs.I('addi', rd=2, rs1=2, imm=d), progs.I('slli', rd=8, rs1=8, shamt=1),
             L.data('db B - A', ('<B', d)), L.data('pack <B B - A + -4', ('<b', ('diff', 'B', 'A', -4))), L.li(10, d), L.data('dw B - A', ('<I', d))]
    for body in itertools.product(fill, repeat=k) if k <= 3 else [tuple(fill[(i * 7 + k) % 4] for i in range(k)), tuple([fill[0]] * k), tuple([fill[1]] * k)]:
        for u in users:
            yield [L.label('A')] + list(body) + [L.label('B'), u]
            yield [u, L.label('A')] + list(body) + [L.label('B')]


def labelexpr_jump_programs():
    """a transfer whose displacement is an EXPRESSION of a label (L - K, %position(L, -K)): it does not get closer when code shrinks, so a compressed form chosen on the
    value seen during the compression pass can fail later although the 32-bit form would have encoded the final value"""
    def line(text):
        return dict(k='inst', mn='?', f={}, text=text)
    addi = line('addi x8, x8, 1')
    for k in list(range(2040, 2062, 2)) + list(range(250, 270, 2)) + [4094, 4096, 4098]:
        for x in ('jal x0, L - %d', 'jal x1, L - %d', 'beq x8, x0, L - %d', 'bne x9, x0, %%position(L, -%d)', 'jal x0, %d - L', 'beq x8, x0, %d - L', 'jal x0, L + -%d'):
            for pad in (0, 1, 3):
                yield [addi] * pad + [line(x % k), L.label('L'), line('add x5, x6, x7')]
                yield [L.label('L')] + [addi] * pad + [line(x % k), line('add x5, x6, x7')]


def shadow_programs():
    """a transfer whose target NAME is defined both as a constant and as a label (without -c the constant wins, an absolute address): whatever the
    uncompressed build makes of it, the -c build must not be refused"""
    def line(text):
        return dict(k='inst', mn='?', f={}, text=text)
    xfers = ['j X', 'jal x0, X', 'jal x1, X', 'jal X', 'call X', 'tail X', 'beqz x8, X', 'bnez x9, X', 'beq x8, x0, X', 'bne x0, x9, X', 'bgtz x8, X', 'blt x8, x9, X']
    for k in (0, 2, 8, 200, 254, 256, 258, 1000, 2046, 2048, 2050, 4000, 4094, 0x1000, 0x7fffe, 0xffffe):
        for x in xfers:
            for pad in ([], [line('addi x8, x8, 1')], [line('addi x8, x8, 1')] * 3):
                yield [L.const('X', str(k))] + pad + [line(x), L.label('X'), line('add x5, x6, x7')]
                yield [L.label('X')] + pad + [line(x), L.const('X', str(k)), line('add x5, x6, x7')]
                yield [line(x)] + pad + [L.label('X'), line('add x5, x6, x7'), L.const('X', str(k))]


def s2_tasks(tier):
    from mc.props import c03
    ts = [dict(t, src='c03') for t in c03.s2_tasks(tier)]
    edge = progs.edge_instructions(tier)
    n = (len(edge) + 255) // 256
    ts += [dict(src='edge', lo=i * 256, hi=(i + 1) * 256) for i in range(n)]
    ts += [dict(src='symbolic', part=i, parts=16) for i in range(16)]
    ts += [dict(src='labeldiff', k=k) for k in range(0, 9)]
    ts += [dict(src='shadow')]
    ts += [dict(src='labelexpr')]
    ts += [dict(src='nearlabel', part=i, parts=64) for i in range(64)]
    # the literal pseudo-instructions (li over its whole structured value set in both spellings, mv / not / neg / jr ..., numeric-offset transfers), one per program
    ts += [dict(src='pseudolit', part=i, parts=16) for i in range(16)]
    return ts


_EDGE = {}


def s2_programs(task):
    from mc.props import c03
    k = task['src']
    if k == 'c03':
        yield from c03.s2_programs(task)
    elif k == 'edge':
        if task['tier'] not in _EDGE:
            _EDGE[task['tier']] = progs.edge_instructions(task['tier'])
        yield _EDGE[task['tier']][task['lo']:task['hi']]
    elif k == 'labeldiff':
        yield from labeldiff_programs(task['k'])
    elif k == 'shadow':
        yield from shadow_programs()
    elif k == 'labelexpr':
        yield from labelexpr_jump_programs()
    elif k == 'pseudolit':
        from mc.props import c20
        lits = c20.pseudo_literals(task['tier'])
        for i, it in enumerate(lits):
            if i % task['parts'] == task['part']:
                yield [it]
                if i % 7 == 0:
                    yield [progs.I('addi', rd=8, rs1=8, imm=1), it, progs.I('add', rd=5, rs1=6, rs2=7)]
    else:
        gen = symbolic_programs() if k == 'symbolic' else near_label_programs()
        for i, p in enumerate(gen):
            if i % task['parts'] == task['part']:
                yield p


def describe(tier):
    return ('S1: all closed programs of <= %d lines over the alphabet (label-valued immediates on RVC-eligible instructions + transfers + shrinking items); the span '
            'programs of C03 (incl. far call/tail); the operand-edge instruction space; the symbolic-operand family (shift amounts / registers / immediates written as '
            'constants, aliases, register names, hex, expressions); label-valued immediates with the label 0..3 items away at 19 base offsets' % depth(tier))


DRIVERS = {'prog_case': layoutrun.prog_case(__name__)}


def run(tier, seed, t0):
    return layoutrun.run(sys.modules[__name__], tier, seed, t0, [
        'alignments are powers of two (an odd align in front of code can make a branch target odd in one mode only, which no assembler could rescue)',
        'any exception type counts as failure of the -c build'])
