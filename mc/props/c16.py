"""C16 - assembly is a pure, deterministic function of its inputs (DESIGN.md section 3, C16).

History explorer: an alphabet of 27 assemble() calls (programs that define constants / labels / register aliases other
programs use WITHOUT defining, programs failing in five different passes, compressed / uncompressed, a path program
with an include whose files are rewritten between calls, shared / differing include_dirs, dictionaries supplied or omitted); all histories up to the
stated length (see coverage.bound) are executed, each in one fresh interpreter (one child process per history), and every step's complete result (bytes
or exception type + message + line, labels and constants incl. their order) must equal the result of the same call
alone in a fresh interpreter.  A structural hash of everything mutable reachable from bronzebeard.asm is recorded after
every call (expected: one state); dictionaries handed out by earlier calls must stay untouched.
Fresh processes under PYTHONHASHSEED in {0, 1, 2, 3, 42, seed-derived, unset} must agree byte for byte (API + CLI).
"""
import itertools
import json
import os
import subprocess
import sys

from mc import kernel, trees

PROP = 'C16'
CHILD = os.path.join(os.path.dirname(os.path.dirname(os.path.abspath(__file__))), 'c16_child.py')
OPS = ['def', 'use_const', 'use_label', 'use_alias', 'def_nd', 'use_const_nd', 'use_label_nd', 'use_alias_nd', 'fail_parse', 'fail_const', 'fail_enc', 'fail_data', 'ok_c', 'ok_u', 'edge_c', 'fail_pseudo_c', 'many', 'board1', 'board2', 'incX', 'incY', 'incfail', 'incgood', 'sharedAB', 'sharedBA', 'path_A', 'path_B']


OBSERVERS = ['use_const', 'use_alias', 'use_const_nd', 'use_label_nd', 'board2', 'incY', 'incgood', 'sharedBA', 'path_B', 'edge_c']


def child(hist, hashseed='0', tag='h'):
    scratch = os.path.join(kernel.scratch('_c16'), tag)
    env = dict(os.environ)
    env.pop('PYTHONHASHSEED', None)
    if hashseed is not None:
        env['PYTHONHASHSEED'] = str(hashseed)
    for attempt in (1, 2, 3):
        p = subprocess.run(['/venv/bin/python', CHILD, json.dumps(hist), scratch], capture_output=True, text=True, env=env)
        if p.returncode == 0:
            return json.loads(p.stdout)
        # the child only fails when the interpreter itself could not run the history (fork / memory pressure on a loaded machine, or a tree that does not import):
        # retry, then give up loudly - this is a harness failure (exit 2), never a verdict
    raise RuntimeError('child failed %d times: %s' % (attempt, p.stderr[-2000:]))


def strip(r):
    return {k: v for k, v in r.items() if k not in ('state',)}


def history_case(ctx, case):
    """case = dict(hist=[ops]); fresh = {op: result}"""
    hist = case['hist']
    fresh = case.get('fresh') or {op: strip(child([op], tag='f')[1]) for op in set(hist)}
    res = child(hist)
    ctx.count('histories')
    ctx.count('calls', len(hist))
    ctx.seen('states', res[0]['state'])
    for i, r in enumerate(res[1:]):
        ctx.seen('states', r['state'])
        want = fresh[r['op']]
        got = strip(r)
        if got != want:
            diff = sorted(k for k in set(got) | set(want) if got.get(k) != want.get(k))
            earlier = hist[:i]
            ctx.violation('%s:history:%s:%s' % (PROP, r['op'], '+'.join(diff)), 'after %s the call %r returns %s, alone in a fresh interpreter %s'
                          % (earlier, r['op'], {k: got.get(k) for k in diff}, {k: want.get(k) for k in diff}), 'history_case', dict(hist=hist[:i + 1]),
                          expected=want, observed=got)
            break
        if not r['earlier_dicts_intact']:
            ctx.violation('%s:history:%s:earlier-dicts-modified' % (PROP, r['op']), 'call %r after %s modified a dictionary handed out by an earlier call' % (r['op'], hist[:i]),
                          'history_case', dict(hist=hist[:i + 1]), expected='untouched', observed='modified')
            break


def history_task(ctx, task):
    for h in task['hists']:
        history_case(ctx, dict(hist=h, fresh=task['fresh']))
    ctx.sample(dict(history=task['hists'][0]), cap=1)


def seed_case(ctx, case):
    """the same call in fresh processes under different hash seeds"""
    op = case['op']
    ref = None
    for hs in case['seeds']:
        r = strip(child([op], hashseed=hs, tag='s')[1])
        ctx.count('seed_runs')
        ctx.count('calls')
        if ref is None:
            ref = (hs, r)
        elif r != ref[1]:
            diff = sorted(k for k in set(r) | set(ref[1]) if r.get(k) != ref[1].get(k))
            ctx.violation('%s:hashseed:%s:%s' % (PROP, op, '+'.join(diff)), 'call %r under PYTHONHASHSEED=%s differs from PYTHONHASHSEED=%s in %s' % (op, hs, ref[0], diff),
                          'seed_case', case, expected=ref[1], observed=r)


def cli_seed_case(ctx, case):
    """the command line (binary, label file incl. its line order, hex file) under different hash seeds"""
    base = trees.fresh_dir(os.path.join(kernel.scratch('_c16'), 'cli'))
    src = os.path.join(base, 'p.asm')
    names = 'zeta alpha mid beta omega gamma y x w q'.split()
    open(src, 'w').write('include board.asm\n' + ''.join('%s:\n%s_K = %d\naddi x8, x8, %d\n' % (n, n, i, i) for i, n in enumerate(names)) + 'j alpha\n')
    incs = []
    for i, d in enumerate(('zeta_dir', 'alpha_dir', 'mid_dir', 'beta_dir')):       # the same file name in several -i directories: command-line order decides
        os.makedirs(os.path.join(base, d))
        open(os.path.join(base, d, 'board.asm'), 'w').write('BOARD = %d\ndw BOARD\n' % (i + 1))
        incs += ['-i', d]
    ref = None
    for hs in case['seeds']:
        env = dict(os.environ, PYTHONPATH=kernel.REPO)
        env.pop('PYTHONHASHSEED', None)
        if hs is not None:
            env['PYTHONHASHSEED'] = str(hs)
        for f in ('o.bin', 'o.bin.hex', 'l.txt'):
            if os.path.exists(os.path.join(base, f)):
                os.remove(os.path.join(base, f))
        p = subprocess.run(['/venv/bin/python', '-c', 'import sys; sys.path.insert(0, %r); from bronzebeard.asm import cli_main; cli_main()' % kernel.REPO,
                            'p.asm', '-c', '-o', 'o.bin', '-l', 'l.txt', '--hex-offset', '0x08000000'] + incs + (['-v'] if case.get('verbose') else []),
                           cwd=base, capture_output=True, text=True, env=env)
        ctx.count('seed_runs')
        ctx.count('calls')
        got = dict(status=p.returncode, stdout=p.stdout, files={f: open(os.path.join(base, f), 'rb').read().hex() if os.path.exists(os.path.join(base, f)) else None
                                                                 for f in ('o.bin', 'o.bin.hex', 'l.txt')})
        if ref is None:
            ref = (hs, got)
            if p.returncode != 0:
                raise RuntimeError('cli reference run failed: ' + p.stderr)
            if bytes.fromhex(got['files']['o.bin'])[:4] != b'\x01\0\0\0':
                ctx.violation('%s:cli:include-order' % PROP, 'with -i zeta_dir -i alpha_dir -i mid_dir -i beta_dir the first directory must win: got BOARD word %s' % got['files']['o.bin'][:8],
                              'cli_seed_case', case, expected='01000000', observed=got['files']['o.bin'][:8])
        elif got != ref[1]:
            diff = [k for k in ('status', 'stdout') if got[k] != ref[1][k]] + [f for f in got['files'] if got['files'][f] != ref[1]['files'][f]]
            ctx.violation('%s:hashseed:cli:%s' % (PROP, '+'.join(diff)), 'command line under PYTHONHASHSEED=%s differs from PYTHONHASHSEED=%s in %s' % (hs, ref[0], diff),
                          'cli_seed_case', case, expected=ref[1], observed=got)


def extra_task(ctx, items):
    for name, case in items:
        DRIVERS[name](ctx, case)


DRIVERS = {'history_case': history_case, 'seed_case': seed_case, 'cli_seed_case': cli_seed_case}


def run(tier, seed, t0):
    depth = 3 if tier == 'quick' else 4
    fresh = {}
    for op in OPS:
        r = child([op], tag='main')
        fresh[op] = strip(r[1])
    # sanity of the alphabet itself (a vacuous alphabet would hide leaks): the "use" programs must fail alone
    for op in ('use_const', 'use_label', 'use_alias', 'use_const_nd', 'use_label_nd', 'use_alias_nd'):
        if fresh[op]['status'] == 'ok':
            raise RuntimeError('alphabet broken: %s succeeds alone' % op)
    if tier == 'quick':
        # all histories of length 2, and all of length 3 that end in a call able to observe leaked constants / labels / aliases / search paths / file contents
        obs = OBSERVERS
        hists = [list(h) for h in itertools.product(OPS, repeat=2)] + [list(h) + [o] for h in itertools.product(OPS, repeat=2) for o in obs]
    else:
        # all histories of length 3, and all of length 4 that end in an observer call
        hists = [list(h) for h in itertools.product(OPS, repeat=3)] + [list(h) + [o] for h in itertools.product(OPS, repeat=3) for o in OBSERVERS]
    tasks = [dict(hists=ch, fresh=fresh) for ch in kernel.chunks(hists, 40)]
    m = kernel.explore(history_task, tasks)
    seeds = ['0', '1', '2', '3', '42', str(1000 + seed % 100000), None]
    extra = [('seed_case', dict(op=op, seeds=seeds)) for op in OPS] + [('cli_seed_case', dict(seeds=seeds)), ('cli_seed_case', dict(seeds=seeds, verbose=True))]
    m = kernel.explore(extra_task, [[e] for e in extra], merged=m)
    n = m.n
    nstates = len(m.sets['states'])
    cov = dict(states=n['calls'], transitions=n['calls'], traces_validated_against_impl=n['histories'] + n['seed_runs'],
               evaluations=n['calls'], distinct_nontrivial=n['histories'],
               rule='one history = one fresh interpreter executing up to %d assemble() calls; states counts (history, step) pairs compared with the fresh-interpreter result of the same call; '
                    '%s' % (depth, 'all histories of length 3 over the %d-call alphabet and all of length 4 ending in one of 10 observer calls' % len(OPS) if tier == 'thorough' else
                            'all histories of length 2 over the %d-call alphabet and all of length 3 ending in one of 10 observer calls' % len(OPS)),
               exhaustive=True, depth=depth, alphabet=OPS, distinct_module_states=nstates, hash_seeds=[s if s is not None else 'unset' for s in seeds],
               bound=('all %d^3 histories of length 3 + %d^3 x 10 of length 4' % (len(OPS), len(OPS)) if tier == 'thorough' else 'all %d^2 histories of length 2 + %d^2 x 10 of length 3' % (len(OPS), len(OPS))) + '; 7 hash seeds x (%d API calls + command line with -l / --hex-offset and four -i directories, with and without -v)' % len(OPS))
    del m.sets['states']
    return kernel.finish(PROP, tier, seed, t0, m, cov, [
        'the fresh-interpreter result of the same call is the reference (differential, no hand-written expectation)',
        'dictionaries of other calls are kept alive and checked for modification, but never passed into a later call (passing a pre-filled dictionary is documented pre-seeding)',
        'module-state hash covers module globals, function defaults, closure cells, partial keywords and class attributes of bronzebeard.asm; it is reported, the verdict comes from the comparison'])
