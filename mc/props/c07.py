"""C07 - %hi / %lo always split a value so that the consuming pair rebuilds it (DESIGN.md section 3, C07).

Product explorer.  (a) relocate_hi / relocate_lo themselves on every v of the stated set (thorough: ALL v in
[-2^31, 2^32), i.e. all 2^32 bit patterns and both spellings of the upper half): hi fits 20 bits signed, lo fits 12
bits signed, (hi << 12) + lo == v (mod 2^32).  (b) end to end: structured values x spellings (decimal / hex /
negative literal, constant, %position(L, base), with and without parentheses, nested) x consumer pairs
lui+addi, lui+lw, lui+sw, auipc+addi, auipc+jalr through assemble(); the emitted pair is decoded and *executed* on
the reference ISS: the register / effective address / jump target must equal v (pc + v for auipc pairs).
"""
from mc import kernel
from mc.ref import rv32

PROP = 'C07'
M32 = 0xffffffff


def split_point(ctx, case):
    asm = kernel.boot()
    v = case['v']
    ctx.count('values')
    try:
        hi, lo = asm.relocate_hi(v), asm.relocate_lo(v)
    except Exception as e:
        ctx.violation('%s:split:raw-exception' % PROP, 'relocate(%d) raised %r' % (v, e), 'split_point', case, expected='hi, lo', observed=repr(e))
        return
    if not -(1 << 19) <= hi < (1 << 19):
        ctx.violation('%s:split:hi-range' % PROP, '%%hi(%#x) = %d does not fit 20 bits' % (v, hi), 'split_point', case, expected='-2^19 <= hi < 2^19', observed=hi)
    elif not -2048 <= lo <= 2047:
        ctx.violation('%s:split:lo-range' % PROP, '%%lo(%#x) = %d does not fit 12 bits' % (v, lo), 'split_point', case, expected='-2048 <= lo <= 2047', observed=lo)
    elif ((hi << 12) + lo - v) & M32:
        ctx.violation('%s:split:sum' % PROP, '(%%hi << 12) + %%lo of %#x gives %#x' % (v, ((hi << 12) + lo) & M32), 'split_point', case, expected=v & M32, observed=[hi, lo])


def split_task(ctx, task):
    """task = dict(ranges=[(start, stop, step)]) or dict(values=[...])"""
    asm = kernel.boot()
    rh, rl = asm.relocate_hi, asm.relocate_lo
    n = 0
    lo19, hi19 = -(1 << 19), 1 << 19
    for (a, b, st) in task.get('ranges', ()):
        for v in range(a, b, st):
            hi = rh(v)
            lo = rl(v)
            if not (lo19 <= hi < hi19 and -2048 <= lo <= 2047 and not ((hi << 12) + lo - v) & M32):
                split_point(ctx, dict(v=v))
                ctx.count('values', -1)
        n += len(range(a, b, st))
    for v in task.get('values', ()):
        hi = rh(v)
        lo = rl(v)
        if not (lo19 <= hi < hi19 and -2048 <= lo <= 2047 and not ((hi << 12) + lo - v) & M32):
            split_point(ctx, dict(v=v))
            ctx.count('values', -1)
        n += 1
    ctx.count('values', n)
    ctx.count('calls', 2 * n)
    if task.get('sample') is not None:
        v = task['sample']
        ctx.sample(dict(driver='relocate', v=hex(v & M32) if v >= 0 else v, hi=rh(v), lo=rl(v)), cap=1)


FORMS = ['dec', 'hex', 'neg', 'const', 'position', 'noparen', 'nested-noparen', 'expr']
CONSUMERS = ['lui+addi', 'lui+lw', 'lui+sw', 'auipc+addi', 'auipc+jalr']


def spell(v, form, idx):
    """-> (prelude lines, expression text for %hi/%lo argument, paren style)"""
    u = v & M32
    s = u - (1 << 32) if u >> 31 else u
    if form == 'dec':
        return [], str(u), True
    if form == 'hex':
        return [], hex(u), True
    if form == 'neg':
        return [], str(s), True
    if form == 'const':
        return ['K%d = %s' % (idx, hex(u))], 'K%d' % idx, True
    if form == 'position':
        return [], '%%position(L0, %s)' % hex(u), True
    if form == 'noparen':
        return [], hex(u), False
    if form == 'nested-noparen':
        return [], '%%position L0 %s' % hex(u), False
    if form == 'expr':
        return ['H%d = %s' % (idx, hex(u >> 16)), 'Q%d = %s' % (idx, hex(u & 0xffff))], '(H%d << 16) | Q%d' % (idx, idx), True
    raise KeyError(form)


def lines_for(v, form, idx):
    pre, e, paren = spell(v, form, idx)
    hi = '%%hi(%s)' % e if paren else '%%hi %s' % e
    lo = '%%lo(%s)' % e if paren else '%%lo %s' % e
    body = ['lui x5, ' + hi, 'addi x5, x5, ' + lo,
            'lui x6, ' + hi, 'lw x7, x6, ' + lo,
            'lui x6, ' + hi, 'sw x6, x7, ' + lo,
            'auipc x5, ' + hi, 'addi x5, x5, ' + lo,
            'auipc x5, ' + hi, 'jalr x1, x5, ' + (lo if v % 2 == 0 else '0')]
    return pre, body


def e2e_case(ctx, case):
    """case = dict(vals=[(v, form)], compress=bool)"""
    asm = kernel.boot()
    pre_all, body_all = ['L0:'], []
    for idx, (v, form) in enumerate(case['vals']):
        pre, body = lines_for(v, form, idx)
        pre_all += pre
        body_all += body
    src = '\n'.join(pre_all + body_all) + '\n'
    ctx.count('programs')
    ctx.count('lines', len(body_all))
    try:
        out = bytes(asm.assemble(src, compress=case['compress']))
    except Exception as e:
        if len(case['vals']) > 1:
            ctx.count('programs', -1)
            ctx.count('lines', -len(body_all))
            for vf in case['vals']:
                e2e_case(ctx, dict(vals=[vf], compress=case['compress']))
            return
        v, form = case['vals'][0]
        ctx.violation('%s:e2e:refused:%s' % (PROP, form), '%%hi/%%lo of %#x written as %s is refused: %s' % (v & M32, form, kernel.errline(e)[:150]),
                      'e2e_case', case, expected='accepted', observed=repr(e)[:300])
        return
    cur = 0
    for idx, (v, form) in enumerate(case['vals']):
        units = []
        for _ in range(10):
            size, kind, mn, f = rv32.fetch(out, cur)
            if kind == 'bad':
                ctx.violation('%s:e2e:illegal:%s' % (PROP, form), 'illegal unit %s at %#x for value %#x' % (mn, cur, v & M32), 'e2e_case',
                              dict(vals=[[v, form]], compress=case['compress']), expected='legal instruction', observed=out[cur:cur + 4])
                return
            units.append((cur, size, mn, f))
            cur += size
        for k, cons in enumerate(CONSUMERS):
            (c0, s0, m0, f0), (c1, s1, m1, f1) = units[2 * k], units[2 * k + 1]
            m = rv32.Machine([0] * 32, pc=c0)
            try:
                m.exec(s0, m0, f0)
                m.exec(s1, m1, f1)
            except rv32.Unsupported as e:
                got, want = 'unsupported ' + str(e), None
            else:
                if cons == 'lui+addi':
                    got, want = m.x[5], v & M32
                elif cons in ('lui+lw', 'lui+sw'):
                    acc = [t for t in m.trace if t[0] in ('ld', 'st')]
                    got, want = (acc[0][1] if acc else None), v & M32
                elif cons == 'auipc+addi':
                    got, want = m.x[5], (c0 + v) & M32
                else:
                    if v % 2:
                        continue            # jalr needs an even %lo: odd values are covered by the other four consumers
                    got, want = m.pc, (c0 + v) & M32
            ctx.count('pairs')
            if got != want:
                ctx.violation('%s:e2e:%s:%s' % (PROP, cons, form), '%s with %%hi/%%lo of %#x (%s, compress=%s) addresses %s, expected %#x'
                              % (cons, v & M32, form, case['compress'], hex(got) if isinstance(got, int) else got, want if want is not None else 0),
                              'e2e_case', dict(vals=[[v, form]], compress=case['compress']), expected=want, observed=got)
    if cur != len(out):
        ctx.violation('%s:e2e:size' % PROP, 'program has %d bytes, %d consumed' % (len(out), cur), 'e2e_case', case, expected=cur, observed=len(out))
    ctx.sample(dict(driver='e2e', value=hex(case['vals'][0][0] & M32), form=case['vals'][0][1], compress=case['compress'],
                    lines=lines_for(case['vals'][0][0], case['vals'][0][1], 0)[1][:2]), cap=1)


DRIVERS = {'split_point': split_point, 'e2e_case': e2e_case}


def carry_classes():
    """upper-19-bit patterns (bits 31..13) that exercise every carry chain of the +0x1000 adjustment"""
    c = {0, 1, 0x3ffff, 0x40000, 0x7fffe, 0x7ffff, 0x55555, 0x2aaaa}
    for k in range(19):
        c.update(((1 << k) - 1, 1 << k, (1 << 19) - (1 << k), ((1 << 19) - 1) ^ (1 << k)))
    return sorted(x & 0x7ffff for x in c)


def e2e_values(tier):
    vals = set()
    for up in carry_classes()[::(1 if tier == 'thorough' else 3)]:
        for low in (0, 1, 2, 0x7fe, 0x7ff, 0x800, 0x801, 0xffe, 0xfff, 0x1000, 0x17ff, 0x1800, 0x1fff, 0x555, 0xaaa, 0x1234):
            vals.add((up << 13 | low) & M32)
    vals.update(range(0, 0x2100, 64 if tier == 'quick' else 8))
    # every %hi value on both sides of the c.lui operand set (-32..31) and of the 20-bit field, with lows on both sides of the carry
    for h in list(range(-35, 36)) + [-(1 << 19), -(1 << 19) + 1, (1 << 19) - 2, (1 << 19) - 1]:
        for low in (0, 1, 0x7ff, 0x800, 0xfff):
            vals.add(((h << 12) + low) & M32)
    vals.update((0x7ffff7ff, 0x7ffff800, 0x7fffffff, 0x80000000, 0x800007ff, 0x80000800, 0xfffff7ff, 0xfffff800, 0xffffffff, 0x12345678, 0xdeadbeef, 0x08000000, 0x20000ff8))
    return sorted(vals)


def run(tier, seed, t0):
    tasks = []
    if tier == 'thorough':
        step = 1 << 24
        for a in range(-(1 << 31), 1 << 32, step):
            tasks.append(dict(ranges=[(a, a + step, 1)], sample=a + 0x7ff801))
        bound = 'relocate_hi/lo on ALL integers in [-2^31, 2^32) (every 32-bit pattern, both spellings of the upper half)'
    else:
        cls = carry_classes()
        for up in cls:
            rs = []
            for sp in (0, -(1 << 32)):
                base = (up << 13) + sp
                if -(1 << 31) <= base and base + 8192 <= (1 << 32):
                    rs.append((base, base + 8192, 1))
            tasks.append(dict(ranges=rs, sample=(up << 13) | 0x800))
        lows = [0, 1, 0x7ff, 0x800, 0x801, 0xfff, 0x1000, 0x17ff]
        for chunk in kernel.chunks(range(0, 1 << 19, 1 << 13), 4):
            rs = []
            for c0 in chunk:
                for low in lows:
                    rs.append(((c0 << 13) + low, ((c0 + (1 << 13)) << 13) + low, 1 << 13))
                    rs.append(((c0 << 13) + low - (1 << 32), ((c0 + (1 << 13)) << 13) + low - (1 << 32), 1 << 13))
            rs = [(a, b, s) for a, b, s in rs if a >= -(1 << 31)]
            tasks.append(dict(ranges=rs))
        bound = ('relocate_hi/lo on all 8192 low-13-bit patterns x %d carry classes of the upper 19 bits, both spellings, plus all 2^19 upper patterns x 8 low patterns' % len(cls))
    m = kernel.explore(split_task, tasks)
    vals = e2e_values(tier)
    e2e = []
    for fi, form in enumerate(FORMS):
        for comp in (False, True):
            for ch in kernel.chunks(vals, 64):
                e2e.append(dict(vals=[(v, form) for v in ch], compress=comp))
    m = kernel.explore(e2e_case, e2e, merged=m)
    n = m.n
    cov = dict(states=n['values'] + n['pairs'], transitions=n['calls'] + n['lines'], traces_validated_against_impl=n['values'] + n['pairs'],
               evaluations=n['values'] + n['pairs'], distinct_nontrivial=n['values'],
               rule='(a) one state per integer v handed to relocate_hi and relocate_lo; (b) one state per (value, spelling, consumer pair, mode) executed on the reference ISS; '
                    'every value is non-trivial (checked for range and reconstruction)',
               exhaustive=(tier == 'thorough'), bound=bound + '; end to end: %d structured values x %d spellings x 5 consumer pairs x 2 modes' % (len(vals), len(FORMS)),
               values=n['values'], pairs=n['pairs'], programs=n['programs'])
    return kernel.finish(PROP, tier, seed, t0, m, cov, [
        'reference ISS mc/ref/rv32.py executes the emitted pairs; %hi/%lo semantics as the property states ((hi << 12) + lo = v mod 2^32)',
        'lw/sw use the documented `reg, imm` operand order because `%lo(x)(reg)` is not part of the documented grammar'])
