"""C04 - enabling compression never changes what the program means (DESIGN.md section 3, C04).

Differential history explorer: every program of the S1 tree, the S2 span programs and the operand-edge instruction
space is assembled with compression off and on; both outputs are walked by the reference walker and compared item
by item: every 16-bit unit must be a legal RV32C instruction whose specified expansion equals the uncompressed
instruction *retargeted to the compressed layout* (label-valued immediates and pc-relative displacements re-evaluated
with the compressed run's own offsets); where mnemonics differ (addi rd, rs, 0 -> c.mv) the two encodings are run on
the reference ISS from the value-alphabet states and must have the same effect; li / call / tail sequences are compared
by effect; data bytes must be identical (label-valued data retargeted).
"""
import struct
import sys

from mc import kernel, progs, layoutrun
from mc.ref import layout as L
from mc.ref import rv32

PROP = 'C04'
RULE = ('states = distinct programs (S1 tree, S2 spans, batches of the operand-edge instruction space), each assembled in both modes; a trace is validated when both '
        'outputs were walked and compared item by item; non-trivial = programs in which at least one instruction was emitted in 16 bits')
M32 = 0xffffffff


def _units_ok(units):
    return all(u[2] != 'bad' for u in units)


def _run_seq(units, cur):
    m = rv32.Machine(L.SENT, pc=cur)
    for (c, usz, kind, mn, f) in units:
        if m.pc != c:
            break
        m.exec(usz, mn, f)
    return m


def compare_item(it, pu, pc, lu, lc, ou, oc):
    """-> None or (class, message)"""
    k = it['k']
    cu, su, uu = pu
    cc, sc, uc = pc
    if k in ('label', 'const'):
        return None
    if k == 'align':
        return None                       # minimal zero padding in each mode is checked by the walker ('pad')
    if k == 'data':
        p = it['payload']
        if isinstance(p, (bytes, bytearray)):
            if ou[cu:cu + su] != oc[cc:cc + sc]:
                return 'data', 'data bytes differ: %s vs %s' % (ou[cu:cu + su][:16].hex(), oc[cc:cc + sc][:16].hex())
            return None
        fmt, spec = p
        n = struct.calcsize(fmt)
        order = 'big' if fmt[0] == '>' else 'little'
        vu = int.from_bytes(ou[cu:cu + su], order) - L.ev(spec, lu, cu)
        vc = int.from_bytes(oc[cc:cc + sc], order) - L.ev(spec, lc, cc)
        if (vu - vc) % (1 << 8 * n):
            return 'labeldata', 'label-valued data is not retargeted: off by %d uncompressed, %d compressed' % (vu, vc)
        return None
    if not _units_ok(uc):
        return 'illegal-rvc', 'compressed output contains %s at %#x' % ([u[3] for u in uc if u[2] == 'bad'], cc)
    if not _units_ok(uu):
        return None                       # the uncompressed run is the reference; its own defects belong to C01/C03
    if k in ('inst', 'cinst'):
        (_, usz, _, mnu, fu), (_, csz, kindc, mnc, fc) = uu[0], uc[0]
        fu = {r: v for r, v in fu.items() if r != '_c'}
        fc = {r: v for r, v in fc.items() if r != '_c'}
        spec = it['f'].get('imm')
        want = dict(fu)
        if spec is not None and not isinstance(spec, int) and 'imm' in fu:
            want['imm'] = fu['imm'] - L.ev(spec, lu, cu) + L.ev(spec, lc, cc)     # retarget to the compressed layout
        if mnu == mnc and set(want) == set(fc) and all(L._imm_equal(mnu, fc[r], want[r]) for r in fc):
            return None
        try:
            if L.equivalent(csz, mnc, fc, usz, mnu, want):
                return None
        except Exception:
            pass
        return 'meaning', 'compressed %s %r (%d bytes) is not the uncompressed %s %r retargeted' % (mnc, fc, csz, mnu, want)
    if k == 'li':
        try:
            mu, mc = _run_seq(uu, cu), _run_seq(uc, cc)
        except rv32.Unsupported as e:
            return 'meaning', 'li expands to unsupported instruction %s' % e
        rd = it['rd']
        du = (mu.x[rd] - L.ev(it['spec'], lu, cu)) & M32 if rd else 0
        dc = (mc.x[rd] - L.ev(it['spec'], lc, cc)) & M32 if rd else 0
        others_u = [(r, mu.x[r]) for r in range(32) if r != rd and mu.x[r] != L.SENT[r]]
        others_c = [(r, mc.x[r]) for r in range(32) if r != rd and mc.x[r] != L.SENT[r]]
        if du != dc or others_u != others_c or (mu.pc - cu - su) != (mc.pc - cc - sc):
            return 'li', 'li loads value+%d uncompressed but value+%d compressed (other registers %s / %s)' % (du, dc, others_u, others_c)
        return None
    if k in ('call', 'tail'):
        try:
            mu, mc = _run_seq(uu, cu), _run_seq(uc, cc)
        except rv32.Unsupported as e:
            return 'meaning', 'call expands to unsupported instruction %s' % e
        tu = (mu.pc - lu[it['target']]) & M32
        tc = (mc.pc - lc[it['target']]) & M32
        ru = [(r, (mu.x[r] - (cu + su)) & M32 if r == 1 else 'x') for r in range(32) if mu.x[r] != L.SENT[r]]
        rc = [(r, (mc.x[r] - (cc + sc)) & M32 if r == 1 else 'x') for r in range(32) if mc.x[r] != L.SENT[r]]
        if k == 'tail':
            # x6 is the documented scratch register of (far) tail: the near/far choice may differ between the modes
            ru, rc = [x for x in ru if x[0] != 6], [x for x in rc if x[0] != 6]
        if tu != tc or ru != rc:
            return 'xfer', '%s lands at label%+d uncompressed, label%+d compressed; registers %s / %s' % (k, rv32.sext(tu, 32), rv32.sext(tc, 32), ru, rc)
        return None
    return None


def judge(ctx, items, res, driver, case):
    u, c = res[False], res[True]
    if u.status != 'ok' or c.status != 'ok':
        ctx.count('not_both_accepted')
        return
    ctx.count('compared')
    wu, wc = u.walk, c.walk
    if wc.places is None or wu.places is None:
        if wu.places is not None:
            ctx.violation('%s:program:structure' % PROP, 'compressed output cannot be walked: ' + wc.errors[0][2], driver, case,
                          expected='item-by-item counterpart of the uncompressed output', observed=c.out[:64])
        return
    for cat, idx, msg in wc.errors:
        if cat == 'pad':
            ctx.violation('%s:align:pad' % PROP, msg, driver, case, expected='minimal zero padding', observed=c.out[:64])
    for idx, it in enumerate(items):
        bad = compare_item(it, wu.places[idx], wc.places[idx], wu.env, wc.env, u.out, c.out)
        if bad:
            key = '%s:%s:%s:%s' % (PROP, progs.head(it), progs.spec_class(it), bad[0])
            ctx.violation(key, '%r: %s' % (it['text'][:60], bad[1]), driver, case, expected='same meaning as without compression',
                          observed=dict(uncompressed=u.out[wu.places[idx][0]:wu.places[idx][0] + 8], compressed=c.out[wc.places[idx][0]:wc.places[idx][0] + 8]))


def nontrivial(items, res):
    c = res[True]
    return c.status == 'ok' and res[False].status == 'ok' and len(c.out) < len(res[False].out)


def alphabet(tier):
    syms = (progs.pick(progs.XFER, 'beq8', 'jal0', 'jal1', 'call', 'tail') + progs.pick(progs.CODE_C, 'addi8', 'lw', 'swsp') +
            progs.pick(progs.CODE_N, 'add567') + progs.pick(progs.VAR, 'li1', 'liL', 'li3000') +
            progs.pick(progs.LABELARITH, 'addiL', 'liLab', 'lwL', 'dwL') + progs.pick(progs.DATA, 'dh') + progs.pick(progs.ALIGN, 'al4') + [progs.DEF])
    if tier == 'thorough':
        syms += progs.pick(progs.XFER, 'bne56', 'j', 'beqz9') + progs.pick(progs.LABELARITH, 'liPos', 'luiHi', 'addiLo', 'addiOff')
    return progs.instantiate(syms, ['A'])


def depth(tier):
    return 4


DEEP = 5       # thorough: additionally all closed programs of <= 5 lines over the quick alphabet


def s2_tasks(tier):
    from mc.props import c03, c08
    ts = [dict(t, src='c03') for t in c03.s2_tasks(tier)]
    ts += [dict(t, src='c08') for t in c08.s2_tasks(tier)]
    edge = progs.edge_instructions(tier)
    n = (len(edge) + 255) // 256
    ts += [dict(src='edge', lo=i * 256, hi=(i + 1) * 256) for i in range(n)]
    return ts


_EDGE = {}


def s2_programs(task):
    from mc.props import c03, c08
    if task['src'] == 'c03':
        yield from c03.s2_programs(task)
    elif task['src'] == 'c08':
        yield from c08.s2_programs(task)
    else:
        if task['tier'] not in _EDGE:
            _EDGE[task['tier']] = progs.edge_instructions(task['tier'])
        chunk = _EDGE[task['tier']][task['lo']:task['hi']]
        yield [L.label('A')] + chunk + [progs.I('bne', rs1=8, rs2=0, imm=('offset', 'A'))]


def describe(tier):
    return ('S1: all closed programs of <= %d lines over the alphabet; S2: the span programs of C03 and C08; edge: %d literal instructions (18 compressible base '
            'mnemonics x register-class boundaries x immediates on both sides of every RVC operand-set edge) in batches of 256' % (depth(tier), len(progs.edge_instructions(tier))))


DRIVERS = {'prog_case': layoutrun.prog_case(__name__)}


def run(tier, seed, t0):
    return layoutrun.run(sys.modules[__name__], tier, seed, t0, [
        'reference walker + RVC decoder/expander + ISS (mc/ref); the uncompressed output is the reference for meaning',
        '"same effect" for differing mnemonics = same register writes, memory accesses and next pc from every state of the value alphabet V x V'])
