"""C08 - label arithmetic (%offset, %position, bare labels) uses final addresses (DESIGN.md section 3, C08).

History explorer restricted to label-arithmetic referrers (I-type immediates, li, lui/addi %hi/%lo(%position), dw,
pack) placed before / after the label with shrinking items (compressible code, short li, near call, aligns) before
the referrer, between and after; span sweeps move the label across the li short/long and %lo carry thresholds.
Oracle: the value actually encoded (decoded immediate, ISS result of the li sequence, little-endian data word)
equals the expression evaluated over the offsets the reference walker recomputed from the output.
"""
import sys

from mc import kernel, progs, layoutrun
from mc.ref import layout as L

PROP = 'C08'
OWNED = {'labelval', 'structure'}
RULE = ('states = distinct closed programs with label-arithmetic items (S1 tree + S2 span programs), assembled with compression off and on; '
        'non-trivial = accepted programs in which a referenced label ended below its pessimistic first-pass position')


def judge(ctx, items, res, driver, case):
    for c, r in res.items():
        if r.status != 'ok':
            continue
        for cat, idx, msg in r.walk.errors:
            it = items[idx] if idx >= 0 else None
            if cat in OWNED:
                key = '%s:%s:%s:%s:%s' % (PROP, progs.head(it) if it else 'program', progs.spec_class(it) if it else '-', cat, 'c' if c else 'u')
                ctx.violation(key, msg + ' [compress=%s]' % c, driver, case, expected='value computed from the final label offset', observed=dict(output=r.out[:64], labels=r.walk.labels))
            else:
                ctx.count('other:' + cat)


def nontrivial(items, res):
    return any(L.refs(it) and not L.is_transfer(it) for it in items) and progs.moved(items, res)


def alphabet(tier):
    names = ['addiL', 'liLab', 'liPos', 'liOff', 'luiHi', 'addiLo', 'dwL', 'dwOff', 'packPos', 'packOff', 'liPosShl', 'dwPosAnd']
    if tier == 'thorough':
        names += ['lwL', 'addiOff']
    syms = (progs.pick(progs.LABELARITH, *names) + progs.pick(progs.NEGARITH, 'liNeg', 'liLow') + progs.pick(progs.CODE_C, 'addi8') + progs.pick(progs.VAR, 'li1') +
            progs.pick(progs.XFER, 'call') + progs.pick(progs.ALIGN, 'al4') + progs.pick(progs.DATA, 'dh') + [progs.DEF])
    return progs.instantiate(syms, ['A'])


def depth(tier):
    return 4


def extra_runs(tier):
    """a second, small history tree with TWO labels: depth 5 over 9 symbols"""
    syms = progs.pick(progs.LABELARITH, 'liLab', 'dwOff') + progs.pick(progs.CODE_C, 'addi8') + progs.pick(progs.VAR, 'li1') + progs.pick(progs.XFER, 'call') + [progs.DEF]
    return [(progs.instantiate(syms, ['A', 'B']), 5)]


DEEP = 5       # thorough: additionally all closed programs of <= 5 lines over the quick alphabet


BETWEEN = {
    'none': [],
    'addi8': [progs.I('addi', rd=8, rs1=8, imm=1)],
    'li1': [L.li(9, 1)],
    'callA': [L.call('A')],
    'al8': [L.align(8)],
    'addi8+li1': [progs.I('addi', rd=8, rs1=8, imm=1), L.li(9, 1)],
}
WINDOWS = [range(0, 40), range(2020, 2064), range(4080, 4112), range(6130, 6160), [65536, 74560, 74573, 1 << 20, (1 << 20) + 2048]]


def s2_tasks(tier):
    ts = []
    for s in progs.LABELARITH:
        for d in ('fwd', 'bwd'):
            for win in WINDOWS:
                for ch in kernel.chunks(list(win), 8):
                    ts.append(dict(ref=s[0], dir=d, gaps=ch))
    # constants used like labels: %offset(K) / %position(K, b) / bare K with K a constant (position-dependent but label-free operands)
    for base in (0x40, 0x7f0, 0x1000, 0x12345):
        ts.append(dict(kind='constref', base=base))
    return ts


def s2_programs(task):
    if task.get('kind') == 'constref':
        for d in range(0, 24, 2):
            for n in range(0, 6):
                k = L.const('K', hex(task['base'] + d), task['base'] + d)
                pad = [progs.I('addi', rd=8, rs1=8, imm=1)] * n
                for s in progs.LABELARITH:
                    yield [progs.ALIAS_DEF, k] + pad + [s[1]('K'), L.align(4), progs.I('add', rd=5, rs1=6, rs2=7)]
        return
    sym = {s[0]: s for s in progs.LABELARITH}[task['ref']]
    alias = (progs.ALIAS_DEF,) if task['ref'].endswith('Al') else ()
    for gapn in task['gaps']:
        for bname, between in BETWEEN.items():
            for pre in ((), (progs.I('addi', rd=8, rs1=8, imm=1), L.li(9, 1))):
                yield progs.span_program(sym[1], task['dir'], between, gapn, pre=alias + pre)


def describe(tier):
    return ('S1: all closed programs of <= %d lines over the alphabet; S2: %d referrer kinds x 2 directions x %d between-sequences x 2 prefixes x every gap in '
            '0..39, 2020..2063, 4080..4111, 6130..6159 and 64 KiB / 74573 / 1 MiB; the same referrers with a CONSTANT as the referenced name (4 bases x 12 phases x 0..5 compressible instructions in front)' % (depth(tier), len(progs.LABELARITH), len(BETWEEN)))


DRIVERS = {'prog_case': layoutrun.prog_case(__name__)}


def run(tier, seed, t0):
    return layoutrun.run(sys.modules[__name__], tier, seed, t0, [
        'reference walker mc/ref/layout.py; %hi/%lo as defined by the RISC-V psABI (hi = (v + 0x800) >> 12)',
        '%position bases 0x08000000; labels pre-seeded through labels= are out of scope'])
