"""C03 - branches, jumps, call and tail land on their label; the label table is exact (DESIGN.md section 3, C03).

History explorer: S1 = every closed program of <= d source lines over an alphabet that forces the passes to collide
(transfers + compressible code + variable-size pseudo-instructions + data + aligns), S2 = every transfer kind x
direction x "between" sequence x every gap size in a window around every encoding threshold; both with compression
off and on.  Every accepted program is walked by the reference walker: each transfer must land exactly on the first
byte after its label and the label table returned by assemble() must equal the offsets recomputed from the bytes.
"""
import sys

from mc import kernel, progs, layoutrun
from mc.ref import layout as L

PROP = 'C03'
OWNED = {'xfer', 'structure'}
RULE = ('states = distinct closed programs (canonical under label renaming) of the S1 history tree plus the S2 span programs; each is assembled with '
        'compression off and on; non-trivial = accepted programs with a transfer in which at least one label ended below its pessimistic first-pass position')


def judge(ctx, items, res, driver, case):
    for c, r in res.items():
        if r.status != 'ok':
            continue
        w = r.walk
        for cat, idx, msg in w.errors:
            it = items[idx] if idx >= 0 else None
            if cat in OWNED or (cat == 'illegal' and it is not None and L.is_transfer(it)):
                key = '%s:%s:%s:%s:%s' % (PROP, progs.head(it) if it else 'program', progs.spec_class(it) if it else '-', cat, 'c' if c else 'u')
                ctx.violation(key, msg + ' [compress=%s]' % c, driver, case, expected='transfer lands on its label', observed=dict(output=r.out[:64], labels=r.labels))
            else:
                ctx.count('other:' + cat)
        if w.places is not None and not any(e[0] == 'structure' for e in w.errors) and r.labels != w.labels:
            ctx.violation('%s:labels:%s' % (PROP, 'c' if c else 'u'), 'label table %r differs from the offsets recomputed from the output %r' % (r.labels, w.labels),
                          driver, case, expected=w.labels, observed=r.labels)


def nontrivial(items, res):
    return any(L.is_transfer(it) for it in items) and progs.moved(items, res)


def alphabet(tier):
    syms = (progs.pick(progs.XFER, 'beq8', 'bne56', 'jal0', 'jal1', 'j', 'call', 'tail', 'c.j', 'c.jB', 'c.beqzB', 'bgtz9') +
            progs.pick(progs.CODE_C, 'addi8') + progs.pick(progs.CODE_N, 'add567') +
            progs.pick(progs.VAR, 'li1', 'liL') + progs.pick(progs.DATA, 'dh') + progs.pick(progs.ALIGN, 'al4') + [progs.DEF])
    if tier == 'thorough':
        syms += progs.pick(progs.XFER, 'beqz9', 'c.beqz') + progs.pick(progs.VAR, 'li3000') + progs.pick(progs.DATA, 'db')
    return progs.instantiate(syms, ['A'] if tier == 'quick' else ['A', 'B'])


def depth(tier):
    return 4


def extra_runs(tier):
    """a second, small history tree with TWO labels (cross-label effects of the shrink filters): depth 5 over 8 symbols"""
    syms = progs.pick(progs.XFER, 'beq8', 'call') + progs.pick(progs.CODE_C, 'addi8') + progs.pick(progs.VAR, 'li1') + progs.pick(progs.ALIGN, 'al4') + [progs.DEF]
    return [(progs.instantiate(syms, ['A', 'B']), 5)]


DEEP = 5       # thorough: additionally all closed programs of <= 5 lines over the quick alphabet


BETWEEN = {
    'none': [],
    'addi8': [progs.I('addi', rd=8, rs1=8, imm=1)],
    'li1': [L.li(9, 1)],
    'callA': [L.call('A')],
    'al4': [L.align(4)],
    'addi8+li1': [progs.I('addi', rd=8, rs1=8, imm=1), L.li(9, 1)],
    'li1+callA': [L.li(9, 1), L.call('A')],
    'addi8+addi8+lw': [progs.I('addi', rd=8, rs1=8, imm=1), progs.I('addi', rd=8, rs1=8, imm=1), progs.I('lw', rd=9, rs1=8, imm=4)],
}
JUMPS = ('jal0', 'jal1', 'jal5', 'j', 'jalP', 'call', 'tail')


def s2_tasks(tier):
    s2 = []
    near = list(BETWEEN) if tier == 'thorough' else ['none', 'addi8', 'li1', 'callA', 'al4', 'addi8+li1']
    far = ['none', 'addi8', 'li1+callA'] if tier == 'quick' else list(BETWEEN)
    for s in progs.XFER:
        for d in ('fwd', 'bwd'):
            for win in progs.WINDOWS_QUICK:
                for ch in kernel.chunks(list(win), 8):
                    s2.append(dict(ref=s[0], dir=d, gaps=ch, between=near))
            if s[0] in JUMPS:
                for win in progs.WINDOWS_FAR:
                    for ch in kernel.chunks(list(win), 3):
                        s2.append(dict(ref=s[0], dir=d, gaps=ch, between=far))
    # data-size family: every data item kind (non-ASCII / escaped strings, every sequence and pack width, include_bytes) between a transfer and its label
    nd = len(progs.DATA_ALL)
    for i in range(nd):
        s2.append(dict(kind='datasize', i=i))
    # far-context family: a far call / tail / long li first, then every closed sequence of <= 3 items, then a 2 MiB align and the far label
    for pre in FAR_PREFIX:
        for first in [s[0] for s in far_alphabet()] + [None]:
            s2.append(dict(kind='farctx', pre=pre, first=first))
    # constant-target family: call / tail / jal to an absolute address given as a constant, at every low-12-bit phase of the distance
    for base in (0x20000000, 0x100000, 0x40, 0x100, 0x800, 0x1000):
        s2.append(dict(kind='consttarget', base=base))
    # mnemonics written in upper / mixed case (accepted by the parser): sizes, labels behind them and targets must be those of the lower-case spelling
    s2.append(dict(kind='mncase'))
    # span programs at the edges of every transfer's reach, in a program that ALSO defines some unrelated name as constant and as label
    for ref in ('beq8', 'bne56', 'jal0', 'j', 'beqz9', 'c.jB', 'c.beqzB', 'call'):
        for d in ('fwd', 'bwd'):
            for win in progs.WINDOWS_QUICK:
                for ch in kernel.chunks(list(win), 8):
                    s2.append(dict(kind='shadowspan', ref=ref, dir=d, gaps=ch))
    # two transfers to ONE label at different distances (a decision taken for the first must not be reused for the second): the near one 0..3 items away, the far one around every reach edge
    for ref in ('beq8', 'bne56', 'jal0', 'j', 'beqz9', 'jal1'):
        for win in progs.WINDOWS_QUICK:
            for ch in kernel.chunks(list(win), 8):
                s2.append(dict(kind='tworef', ref=ref, gaps=ch))
    return s2


def mncase_items():
    I = progs.I
    def T(it, text):
        return dict(it, text=text)
    return [T(L.li(9, 1), 'LI x9, 1'), T(L.li(9, 0x12345), 'Li x9, 0x12345'), T(L.li(8, 0x3000), 'lI x8, 0x3000'), T(L.call('A'), 'CALL A'), T(L.call('A', tail=True), 'Tail A'),
            T(I('jal', rd=0, imm=('offset', 'A')), 'J A'), T(I('jal', rd=1, imm=('offset', 'A')), 'JAL A'), T(I('jal', rd=5, imm=('offset', 'A')), 'Jal x5, A'),
            T(I('beq', rs1=8, rs2=0, imm=('offset', 'A')), 'BEQ x8, x0, A'), T(I('beq', rs1=9, rs2=0, imm=('offset', 'A')), 'BEQZ x9, A'),
            T(I('bltu', rs1=6, rs2=5, imm=('offset', 'A')), 'BGTU x5, x6, A'), T(I('addi', rd=8, rs1=8, imm=1), 'ADDI x8, x8, 1'), T(I('addi', rd=0, rs1=0, imm=0), 'NOP'),
            T(I('addi', rd=8, rs1=9, imm=0), 'MV x8, x9'), T(I('jalr', rd=0, rs1=1, imm=0), 'RET'), T(L.cinst('c.j', imm=('offset', 'A')), 'C.J A'),
            T(I('lw', rd=9, rs1=8, imm=4), 'LW x9, 4(x8)'), T(I('add', rd=5, rs1=6, rs2=7), 'Add x5, x6, x7')]


FAR_PREFIX = {
    'callB': lambda: [L.call('B')],
    'tailB': lambda: [L.call('B', tail=True)],
    'liB': lambda: [L.li(5, ('label', 'B'))],
    'addi+callB': lambda: [progs.I('addi', rd=8, rs1=8, imm=1), L.call('B')],
    'callB+tailB': lambda: [L.call('B'), L.call('B', tail=True)],
}


def far_alphabet():
    syms = progs.pick(progs.XFER, 'jal0', 'beq8', 'call', 'tail') + progs.pick(progs.VAR, 'li1') + progs.pick(progs.CODE_C, 'addi8') + progs.pick(progs.ALIGN, 'al4') + [progs.DEF]
    return progs.instantiate(syms, ['A'])


def s2_programs(task):
    if task.get('kind') == 'datasize':
        d = progs.DATA_ALL[task['i']][1](None)
        jal = lambda l: progs.I('jal', rd=0, imm=('offset', l))
        tail = progs.I('add', rd=5, rs1=6, rs2=7)
        for d2 in [None] + [x[1](None) for x in progs.DATA_ALL]:
            mid = [d] + ([d2] if d2 else [])
            yield [jal('A')] + mid + [L.align(2), L.label('A'), tail]
            yield [L.label('A'), tail] + mid + [L.align(2), jal('A')]
            yield [L.call('A')] + mid + [L.label('B'), L.align(4), L.label('A'), tail, L.data('dw B', ('<I', ('label', 'B')))]
        return
    if task.get('kind') == 'mncase':
        tail = progs.I('add', rd=5, rs1=6, rs2=7)
        jal = lambda l: progs.I('jal', rd=0, imm=('offset', l))
        beq = lambda l: progs.I('beq', rs1=8, rs2=0, imm=('offset', l))
        items = mncase_items()
        for it in items:
            yield [it, L.label('A'), tail, jal('A')]
            yield [L.label('A'), tail, it, L.label('B'), tail, jal('B'), beq('A')]
            yield [beq('B'), L.label('A'), it, it, L.label('B'), tail, L.call('A')]
            for it2 in items:
                yield [L.label('A'), it, it2, L.label('B'), jal('B'), jal('A')]
        return
    if task.get('kind') == 'shadowspan':
        sym = {x[0]: x for x in progs.XFER}[task['ref']]
        addi = progs.I('addi', rd=8, rs1=8, imm=1)
        for gapn in task['gaps']:
            for n in (1, 2, 3):
                for between in ([], [addi]):
                    pre = [L.const('QQ', '7'), L.label('QQ')] + [addi] * n
                    yield progs.span_program(sym[1], task['dir'], between, gapn, pre=pre)
                    yield progs.span_program(sym[1], task['dir'], between + [progs.I('addi', 'mv x8, x9', rd=8, rs1=9, imm=0)], gapn, pre=[L.const('QQ', '7'), L.label('QQ'), L.li(9, 1)] + [addi] * (n - 1))
        return
    if task.get('kind') == 'tworef':
        sym = {x[0]: x for x in progs.XFER}[task['ref']]
        addi = progs.I('addi', rd=8, rs1=8, imm=1)
        tail = progs.I('add', rd=5, rs1=6, rs2=7)
        for gapn in task['gaps']:
            g = [L.gap(gapn)]
            for k in (0, 1, 3):
                near = [addi] * k
                # backward: A: tail near ref(A) gap [align 2] ref(A)      forward: ref(A) gap [align 2] ref(A) near A: tail
                yield [L.label('A'), tail] + near + [sym[1]('A')] + g + [L.align(2), sym[1]('A')]
                yield [sym[1]('A')] + g + [L.align(2), sym[1]('A')] + near + [L.label('A'), tail]
                yield [addi, L.label('A'), tail] + near + [sym[1]('A')] + g + [L.align(2), addi, sym[1]('A')]
        return
    if task.get('kind') == 'consttarget':
        base = task['base']
        for d in range(0, 48, 2):
            for n in range(0, 12):
                k = L.const('K', hex(base + d), base + d)
                for pad in ([progs.I('addi', rd=8, rs1=8, imm=1)] * n, [L.li(9, 1)] * n if n else None):
                    if pad is None:
                        continue
                    yield [k] + pad + [L.call('K'), L.call('K', tail=True)]
                    if base < 0x100000:
                        yield [k] + pad + [progs.I('jal', 'jal x1, K', rd=1, imm=('offset', 'K')), progs.I('jal', 'j K', rd=0, imm=('offset', 'K'))]
                        yield [k] + pad + [progs.I('beq', 'beq x8, x0, K', rs1=8, rs2=0, imm=('offset', 'K')), progs.I('bne', 'bnez x9, K', rs1=9, rs2=0, imm=('offset', 'K'))]
        return
    if task.get('kind') == 'farctx':
        alpha = far_alphabet()
        pre = FAR_PREFIX[task['pre']]()
        suffix = [L.align(0x200000), L.label('B'), progs.I('add', rd=5, rs1=6, rs2=7)]
        # the mirror image: far label FIRST, the far transfers last (backward far references), the same middles in between
        back_pre = [L.label('B'), progs.I('add', rd=5, rs1=6, rs2=7), L.align(0x200000)]
        if task['first'] is None:
            yield pre + suffix
            yield back_pre + pre
            return
        progs.closed_programs.stats = {'histories': 0, 'open': 0}
        for names, items in progs.closed_programs(alpha, 3, ['A'], (task['first'],)):
            yield pre + items + suffix
            yield back_pre + items + pre
        return
    sym = {s[0]: s for s in progs.XFER}[task['ref']]
    for gapn in task['gaps']:
        for bname in task['between']:
            for pre in ((), (progs.I('addi', rd=8, rs1=8, imm=1),), (progs.I('addi', rd=8, rs1=8, imm=1), L.align(4))):
                yield progs.span_program(sym[1], task['dir'], BETWEEN[bname], gapn, pre=pre)


def describe(tier):
    return ('S1: all closed programs of <= %d lines over the alphabet; S2: %d transfer kinds x 2 directions x between-sequences x 3 prefixes (nothing / a compressible instruction / that plus an align 4) x every gap in '
            '236..267, 2030..2063, 4080..4111 and (jumps/call/tail) 2^20-24..2^20+24, 2^20+0x7e8..2^20+0x818, 2 MiB, 3 MiB; data-size family: %d data item kinds alone and in all pairs '
            'between a transfer and its label (3 shapes); far-context family: 5 far prefixes (call / tail / li to a label 2 MiB away) x all closed sequences of <= 3 items over 9 symbols'
            % (depth(tier), len(progs.XFER), len(progs.DATA_ALL)))


NEEDS_FILES = True      # include_bytes items in the data-size family
DRIVERS = {'prog_case': layoutrun.prog_case(__name__)}


def run(tier, seed, t0):
    return layoutrun.run(sys.modules[__name__], tier, seed, t0, [
        'reference walker mc/ref/layout.py + reference decoder/ISS mc/ref/rv32.py',
        'labels pre-seeded through the labels= argument and distances beyond 3 MiB are out of scope'])
