"""C03 - branches, jumps, call and tail land on their label; the label table is exact (DESIGN.md section 3, C03).

History explorer: S1 = every closed program of <= d source lines over an alphabet that forces the passes to collide
(transfers + compressible code + variable-size pseudo-instructions + data + aligns), S2 = every transfer kind x
direction x "between" sequence x every gap size in a window around every encoding threshold; both with compression
off and on.  Every accepted program is walked by the reference walker: each transfer must land exactly on the first
byte after its label and the label table returned by assemble() must equal the offsets recomputed from the bytes.
"""
from mc import kernel, progs
from mc.ref import layout as L

PROP = 'C03'
OWNED = {'xfer', 'structure'}


def judge(ctx, items, res, driver, case):
    for c, r in res.items():
        ctx.count('assemblies')
        if r.status != 'ok':
            ctx.count('refused')
            ctx.seen('refusals', progs.refusal_class(r))
            continue
        ctx.count('walked')
        w = r.walk
        for cat, idx, msg in w.errors:
            it = items[idx] if idx >= 0 else None
            if cat in OWNED or (cat == 'illegal' and it is not None and L.is_transfer(it)):
                key = '%s:%s:%s:%s:%s' % (PROP, progs.head(it) if it else 'program', progs.spec_class(it) if it else '-', cat, 'c' if c else 'u')
                ctx.violation(key, msg + ' [compress=%s]' % c, driver, case, expected='transfer lands on its label', observed=dict(output=r.out[:64], labels=r.labels))
            else:
                ctx.count('other:' + cat)
        if w.places is not None and not any(e[0] == 'structure' for e in w.errors) and r.labels != w.labels:
            diff = {k: (r.labels.get(k), w.labels.get(k)) for k in set(r.labels) | set(w.labels) if r.labels.get(k) != w.labels.get(k)}
            ctx.violation('%s:labels:%s' % (PROP, 'c' if c else 'u'), 'label table %r differs from the offsets recomputed from the output %r' % (r.labels, w.labels),
                          driver, case, expected=w.labels, observed=r.labels)


def prog_case(ctx, case):
    asm = kernel.boot()
    items = case['items']
    res = progs.analyze(asm, items)
    judge(ctx, items, res, 'prog_case', case)
    return res


def alphabet(tier):
    syms = (progs.pick(progs.XFER, 'beq8', 'bne56', 'jal0', 'jal1', 'j', 'call', 'tail', 'c.j') +
            progs.pick(progs.CODE_C, 'addi8') + progs.pick(progs.CODE_N, 'add567') +
            progs.pick(progs.VAR, 'li1', 'liL') + progs.pick(progs.DATA, 'dh') + progs.pick(progs.ALIGN, 'al4') + [progs.DEF])
    if tier == 'thorough':
        syms += progs.pick(progs.XFER, 'beqz9', 'c.beqz') + progs.pick(progs.VAR, 'li3000') + progs.pick(progs.DATA, 'db')
    return progs.instantiate(syms, ['A'] if tier == 'quick' else ['A', 'B'])


def s1_task(ctx, task):
    asm = kernel.boot()
    progs.closed_programs.stats = {'histories': 0, 'open': 0}
    alpha = alphabet(task['tier'])
    for names, items in progs.closed_programs(alpha, task['depth'], ['A', 'B'], tuple(task['prefix'])):
        ctx.count('programs')
        res = progs.analyze(asm, items)
        judge(ctx, items, res, 'prog_case', dict(items=items))
        if any(L.is_transfer(it) for it in items):
            ctx.count('with_transfer')
            if progs.moved(items, res):
                ctx.count('nontrivial')
                ctx.sample(dict(explorer='S1', source=L.source(items).splitlines()), cap=1)
    ctx.count('histories', progs.closed_programs.stats['histories'])
    ctx.count('open_histories', progs.closed_programs.stats['open'])


BETWEEN = {
    'none': [],
    'addi8': [progs.I('addi', rd=8, rs1=8, imm=1)],
    'li1': [L.li(9, 1)],
    'callA': [L.call('A')],
    'al4': [L.align(4)],
    'addi8+li1': [progs.I('addi', rd=8, rs1=8, imm=1), L.li(9, 1)],
    'li1+callA': [L.li(9, 1), L.call('A')],
    'addi8+addi8+lw': [progs.I('addi', rd=8, rs1=8, imm=1), progs.I('addi', rd=8, rs1=8, imm=1), progs.I('lw', rd=9, rs1=8, imm=4)],
}


def s2_task(ctx, task):
    asm = kernel.boot()
    sym = {s[0]: s for s in progs.XFER}[task['ref']]
    for gapn in task['gaps']:
        for bname in task['between']:
            for pre in ((), (progs.I('addi', rd=8, rs1=8, imm=1),)):
                items = progs.span_program(sym[1], task['dir'], BETWEEN[bname], gapn, pre=pre)
                ctx.count('programs')
                res = progs.analyze(asm, items)
                judge(ctx, items, res, 'prog_case', dict(items=items))
                ctx.count('with_transfer')
                if progs.moved(items, res):
                    ctx.count('nontrivial')
        ctx.sample(dict(explorer='S2', referrer=task['ref'], dir=task['dir'], gap=gapn), cap=1)


DRIVERS = {'prog_case': prog_case}


def run(tier, seed, t0):
    depth = 4 if tier == 'quick' else 4
    alpha = alphabet(tier)
    tasks = [dict(t, tier=tier) for t in progs.s1_tasks(alpha, depth, 2)]
    m = kernel.explore(s1_task, tasks)
    s2 = []
    between_near = list(BETWEEN) if tier == 'thorough' else ['none', 'addi8', 'li1', 'callA', 'al4', 'addi8+li1']
    between_far = ['none', 'addi8', 'li1+callA'] if tier == 'quick' else list(BETWEEN)
    for s in progs.XFER:
        for d in ('fwd', 'bwd'):
            for win in progs.WINDOWS_QUICK:
                for ch in kernel.chunks(list(win), 8):
                    s2.append(dict(ref=s[0], dir=d, gaps=ch, between=between_near))
            if s[0] in ('jal0', 'jal1', 'jal5', 'j', 'jalP', 'call', 'tail'):
                for win in progs.WINDOWS_FAR:
                    for ch in kernel.chunks(list(win), 3):
                        s2.append(dict(ref=s[0], dir=d, gaps=ch, between=between_far))
    m = kernel.explore(s2_task, s2, merged=m)
    n = m.n
    cov = dict(states=n['programs'], transitions=n['assemblies'], traces_validated_against_impl=n['walked'],
               evaluations=n['assemblies'], distinct_nontrivial=n['nontrivial'],
               rule='states = distinct closed programs (canonical under label renaming) of the S1 history tree plus the S2 span programs; each is assembled with '
                    'compression off and on; non-trivial = accepted programs with a transfer in which at least one label ended below its pessimistic first-pass position',
               exhaustive=True, depth=depth, alphabet=[s[0] for s in alpha], histories=n['histories'], open_histories=n['open_histories'],
               bound='S1: all closed programs of <= %d lines over the %d-symbol alphabet; S2: %d transfer kinds x 2 directions x between-sequences x every gap in '
                     '236..267, 2030..2063, 4080..4111 and (jumps/call/tail) 2^20-24..2^20+24, 2^20+0x7e8..2^20+0x818, 2 MiB, 3 MiB' % (depth, len(alpha), len(progs.XFER)),
               programs_with_transfer=n['with_transfer'], refused=n['refused'])
    return kernel.finish(PROP, tier, seed, t0, m, cov, [
        'reference walker mc/ref/layout.py + reference decoder/ISS mc/ref/rv32.py',
        'labels pre-seeded through the labels= argument and distances beyond 3 MiB are out of scope'])
