"""C19 - DFU refuses oversize firmware untouched and never reports a failed flash as done (DESIGN.md section 3, C19).

Fault enumeration on the closed system real dfu.cli_main() <-> DfuSe device model: (a) every oversize length
flash+1 .. flash+1025, 2*flash and flash+2^20 for the four GD32 variants; (b) every single injection of a device
error status at every erase / set-address / write step of runs of 1..N pages, on a specification-conformant device
(dfuERROR, further downloads stalled) and on a lenient device that keeps accepting requests (where every pair of
injections is enumerated as well).
Oracle: oversize => non-zero exit and not a single DNLOAD request seen by the device; fault => `done!` is never
printed, the exit status is non-zero and (for erase / write faults) the output names the failure.
"""
import itertools

from mc import kernel
from mc.ref import dfuse

PROP = 'C19'
VARIANTS = [16, 32, 64, 128]
# DFU 1.1, table of bStatus values (the wording a user would look for)
DESCRIPTION = {1: 'not targeted', 2: 'vendor-specific verification', 3: 'unable to write', 4: 'erase function failed', 5: 'erase check failed', 6: 'program memory function failed',
               7: 'failed verification', 8: 'address that is out of range', 9: 'wlength = 0', 10: 'firmware is corrupt', 11: 'vendor-specific error',
               12: 'usb reset', 13: 'power on reset', 14: 'something went wrong', 15: 'stalled an unexpected request'}
NAMES = {1: 'errTARGET', 2: 'errFILE', 3: 'errWRITE', 4: 'errERASE', 5: 'errCHECK_ERASED', 6: 'errPROG', 7: 'errVERIFY', 8: 'errADDRESS', 9: 'errNOTDONE', 10: 'errFIRMWARE',
         11: 'errVENDOR', 12: 'errUSBR', 13: 'errPOR', 14: 'errUNKNOWN', 15: 'errSTALLEDPKT'}


def names_failure(stdout, code):
    t = stdout.lower()
    return DESCRIPTION[code] in t or NAMES[code].lower() in t or ('status %d' % code) in t or ('status: %d' % code) in t or ('status=%d' % code) in t


def oversize_case(ctx, case):
    fw = dfuse.firmware(case['length'])
    r = dfuse.run_host(case['pages'], fw, uniform=(1, 5), via=case.get('via', 'file'))
    ctx.count('runs')
    ctx.count('oversize_runs')
    ctx.count('transfers', len(r.dev.requests))
    if r.status == 0 or r.dev.dnloads or r.done or bytes(r.dev.flash) != r.dev.init:
        ctx.violation('%s:oversize:%s' % (PROP, 'exit-0' if r.status == 0 else 'requests-sent'), '%d-byte firmware for a %d-byte flash: exit %r, %d DNLOAD requests, done=%s'
                      % (len(fw), case['pages'] * 1024, r.status, r.dev.dnloads, r.done), 'oversize_case', case, expected='refused before any erase / write request',
                      observed=dict(status=r.status, dnloads=r.dev.dnloads, stdout=r.stdout[-150:]))


def fault_case(ctx, case):
    """case = dict(pages, npages, faults=[[kind, idx, code]...], lenient)"""
    fw = dfuse.firmware(case['npages'] * 1024 - case.get('short', 7))
    faults = {(k, i): c for k, i, c in case['faults']}
    r = dfuse.run_host(case['pages'], fw, faults=faults, lenient=case['lenient'], uniform=tuple(case.get('uniform', (1, 5))))
    ctx.count('runs')
    ctx.count('fault_runs')
    ctx.count('transfers', len(r.dev.requests))
    for ev in r.dev.trace:
        ctx.seen('joint', str(ev[:3]))
    reported = [(k, i, c) for k, i, c in case['faults'] if r.dev.counts.get(k, 0) > i]      # injections the run actually reached
    if not reported:
        ctx.count('fault_not_reached')
        return
    ctx.count('nontrivial')
    k0, i0, c0 = reported[0]
    dev_kind = 'lenient' if case['lenient'] else 'strict'
    if r.done or r.status == 0:
        ctx.violation('%s:fault:%s:%s:%s' % (PROP, k0, 'done' if r.done else 'exit-0', dev_kind),
                      'device reports %s (%d) for %s #%d of a %d-page run (%s device): done=%s, exit %r' % (NAMES.get(c0, 'reserved status %d' % c0), c0, k0, i0, case['npages'], dev_kind, r.done, r.status),
                      'fault_case', case, expected='no "done!", non-zero exit', observed=dict(status=r.status, done=r.done, stdout=r.stdout[-200:]))
    elif k0 in ('erase', 'write') and c0 in NAMES and not names_failure(r.stdout, c0):
        ctx.violation('%s:fault:%s:not-named:%s' % (PROP, k0, dev_kind), 'device reports %s for %s #%d: the output does not name the failure: %r' % (NAMES.get(c0, 'reserved status %d' % c0), k0, i0, r.stdout[-160:]),
                      'fault_case', case, expected='output names ' + NAMES.get(c0, 'reserved status %d' % c0), observed=r.stdout[-300:])


def task(ctx, items):
    for name, case in items:
        DRIVERS[name](ctx, case)
        ctx.count('cases')
    ctx.sample(dict(driver=items[0][0], case=items[0][1]), cap=1)


DRIVERS = {'oversize_case': oversize_case, 'fault_case': fault_case}


def run(tier, seed, t0):
    kernel.boot()
    items = []
    for pages in VARIANTS:
        flash = pages * 1024
        for n in list(range(flash + 1, flash + 1026)) + [2 * flash, flash + (1 << 20), flash + (1 << 20) + 1]:
            items.append(('oversize_case', dict(pages=pages, length=n)))
        # the same through a named pipe (the size of the firmware is not the size of the directory entry)
        for n in (flash + 1, flash + 1024, flash + 1025, 2 * flash):
            items.append(('oversize_case', dict(pages=pages, length=n, via='fifo')))
    codes = list(range(1, 16))
    RESERVED = [16, 0x40, 0xff]          # status bytes DFU 1.1 leaves undefined: no wording is demanded for them, but the run may not end as a success
    maxp = 5 if tier == 'quick' else 16
    for npages in range(1, maxp + 1):
        steps = [(k, i) for k in ('erase', 'setaddr', 'write') for i in range(npages)]
        for lenient in (False, True):
            for (k, i) in steps:
                for c in codes + RESERVED:
                    for uni in ((1, 5), (0, 0)):
                        items.append(('fault_case', dict(pages=16, npages=npages, faults=[[k, i, c]], lenient=lenient, uniform=list(uni))))
        # every pair of injections (only a lenient device gets past the first one)
        pair_codes = codes[:2] if tier == 'quick' else codes[:5]
        if npages <= (4 if tier == 'quick' else 8):
            for (s1, s2) in itertools.combinations(steps, 2):
                for c1 in pair_codes:
                    for c2 in pair_codes[::-1][:1] + pair_codes[:1]:
                        items.append(('fault_case', dict(pages=16, npages=npages, faults=[[s1[0], s1[1], c1], [s2[0], s2[1], c2]], lenient=True)))
    # the other flash-size variants: single faults at the first and last step of each kind
    for pages in VARIANTS[1:]:
        for npages in (1, pages):
            for k in ('erase', 'setaddr', 'write'):
                for i in sorted({0, npages - 1}):
                    for lenient in (False, True):
                        items.append(('fault_case', dict(pages=pages, npages=npages, faults=[[k, i, 3]], lenient=lenient)))
    m = kernel.explore(task, list(kernel.chunks(items, 60)))
    n = m.n
    joint = len(m.sets['joint'])
    del m.sets['joint']
    cov = dict(states=n['cases'], transitions=n['transfers'], traces_validated_against_impl=n['runs'], evaluations=n['runs'], distinct_nontrivial=n['nontrivial'],
               rule='one state per (variant, image length / page count, set of injected faults, device kind, uniform schedule); one complete execution of dfu.cli_main() each; non-trivial = '
                    'fault runs in which the device actually reported the injected error status',
               exhaustive=True, oversize_runs=n['oversize_runs'], fault_runs=n['fault_runs'], fault_not_reached=n['fault_not_reached'], monitor_states=joint,
               bound='oversize: flash+1..flash+1025, 2*flash, flash+2^20 (+1) x 4 variants (4 of them also through a named pipe); faults: %d status codes (+ 3 undefined ones) x every erase / set-address / write step of 1..%d page runs x {strict, lenient} '
                     'device x 2 schedules; every pair of steps on the lenient device; first / last step on the other three variants' % (len(codes), maxp))
    return kernel.finish(PROP, tier, seed, t0, m, cov, [
        'device model mc/ref/dfuse.py; a specification-conformant device enters dfuERROR and stalls further downloads, the lenient variant keeps accepting them',
        '"names the failure" = the output contains the DFU 1.1 description of the status, its errXXX name or "status <code>"; demanded for erase and write faults',
        '"refused before any request" is checked as: no DNLOAD request reaches the device and the flash is untouched'])
