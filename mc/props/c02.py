"""C02 - compressed (RV32C) instructions encode exactly as specified, one-to-one (DESIGN.md section 3, C02).

forward: 27 c.* mnemonics x all 32 registers in every register position x every integer immediate from well below
the legal minimum to well above the maximum -> real encoder (and text front end for accepted tuples); accepted =>
the halfword is a *legal* RV32C instruction that decodes to exactly the operands named.
reverse: all 65 536 halfwords; legal => assembling the canonical text gives the halfword back.
"""
import itertools

from mc import isa, kernel, encdrv
from mc.ref import rv32

PROP = 'C02'


def axes_for(mn):
    axes = []
    for r, k in isa.M16[mn]:
        if k in isa.REGKINDS:
            axes.append(list(range(32)))
        else:
            axes.append(encdrv.window(k))
    return axes


def judge(ctx, mn, ops, h, driver, case):
    """accepted tuple -> must decode to exactly (mn, operands)"""
    d = encdrv.decode(mn, h)
    exp = (mn, isa.expected_fields(mn, ops)) if isa.all_legal(mn, ops) else None
    if d is None or exp is None or d != exp:
        cls = d[0] if d else 'not-a-halfword'
        ctx.violation('%s:%s:accepted-decodes-as:%s' % (PROP, mn, cls),
                      '%s %s is accepted and emits %s which decodes to %r' % (mn, list(ops), hex(h) if isinstance(h, int) else h, d),
                      driver, case, expected=exp or 'refused (operands not representable)', observed=[h, d])
        return False
    return True


def fwd_point(ctx, case):
    asm = kernel.boot()
    mn, ops = case['mn'], tuple(case['ops'])
    try:
        h = encdrv.call(asm, mn, ops)
    except Exception:
        return
    judge(ctx, mn, ops, h, 'fwd_point', case)


def text_point(ctx, case):
    asm = kernel.boot()
    mn, ops, line = case['mn'], tuple(case['ops']), case['line']
    try:
        out = bytes(asm.assemble(line + '\n'))
    except Exception as e:
        if case.get('must_accept'):
            ctx.violation('%s:%s:text-refused-legal' % (PROP, mn), 'canonical text %r of legal halfword %s refused: %s'
                          % (line, case.get('h'), kernel.errline(e)), 'text_point', case, expected='accepted', observed=repr(e)[:200])
        return
    h = int.from_bytes(out, 'little') if len(out) == 2 else out
    if case.get('h') is not None and h != case['h']:
        ctx.violation('%s:%s:text-wrong-halfword' % (PROP, mn), 'text %r assembles to %r, expected %#06x' % (line, h, case['h']),
                      'text_point', case, expected=case['h'], observed=h)
        return
    if len(out) != 2:
        ctx.violation('%s:%s:text-size' % (PROP, mn), 'text %r emits %d bytes' % (line, len(out)), 'text_point', case, expected=2, observed=out)
        return
    judge(ctx, mn, ops, h, 'text_point', case)


def text_batch(ctx, asm, items):
    """items = [(mn, ops, line, expected_halfword|None, must_accept)] -> assemble 1024 at a time, fall back per line"""
    for chunk in kernel.chunks(items, 1024):
        ctx.count('programs')
        ctx.count('text_lines', len(chunk))
        try:
            out = bytes(asm.assemble('\n'.join(c[2] for c in chunk) + '\n'))
            hs = encdrv.words_of(out, 2) if len(out) == 2 * len(chunk) else None
        except Exception:
            hs = None
        if hs is None:
            for mn, ops, line, h, must in chunk:
                text_point(ctx, dict(mn=mn, ops=list(ops), line=line, h=h, must_accept=must))
            continue
        for (mn, ops, line, h, must), got in zip(chunk, hs):
            if (h is not None and got != h) or encdrv.decode(mn, got) != (mn, isa.expected_fields(mn, ops)):
                text_point(ctx, dict(mn=mn, ops=list(ops), line=line, h=h, must_accept=must))


def fwd_task(ctx, task):
    asm = kernel.boot()
    encdrv.warm(asm)
    mn = task['mn']
    f = asm.INSTRUCTIONS[mn]
    acc = []
    n = 0
    for ops in itertools.product(*task['axes']):
        n += 1
        try:
            h = f(*ops)
        except ValueError:
            continue
        except Exception as e:
            ctx.count('raw_exceptions')     # type of the refusal is C06/C15's business
            continue
        if judge(ctx, mn, ops, h, 'fwd_point', dict(mn=mn, ops=list(ops))):
            ctx.seen('img:' + mn, h)
        acc.append((mn, ops, isa.render(mn, ops, regsp=n % 3, intsp=n % 3), h if isinstance(h, int) else None, False))
    ctx.count('points', n)
    ctx.count('enc_calls', n)
    ctx.count('accepted', len(acc))
    text_batch(ctx, asm, acc)
    if acc:
        ctx.sample(dict(direction='forward', line=acc[len(acc) // 2][2], halfword=hex(acc[len(acc) // 2][3] or 0)), cap=1)


def rev_task(ctx, hs):
    asm = kernel.boot()
    encdrv.warm(asm)
    items = []
    for h in hs:
        d = rv32.decode16(h)
        ctx.count('halfwords')
        if d is None:
            ctx.count('halfwords_32bit_prefix')
            continue
        ctx.count('class:' + (d[0] if not d[0].startswith('c.') else 'legal'))
        if not d[0].startswith('c.'):
            continue
        mn, f = d
        ctx.count('legal:' + mn)
        ops = tuple(f[r] for r, k in isa.M16[mn])
        items.append((mn, ops, rv32.text16(mn, f), h, True))
        # the encoder handed the same operands directly
        try:
            g = encdrv.call(asm, mn, ops)
        except Exception as e:
            g = repr(e)
        ctx.count('enc_calls')
        if g != h:
            ctx.violation('%s:%s:legal-halfword-not-produced' % (PROP, mn), 'legal %#06x = %s %s, encoder gives %r' % (h, mn, list(ops), g),
                          'rev_point', dict(h=h), expected=h, observed=g)
    text_batch(ctx, asm, items)
    if items:
        ctx.sample(dict(direction='reverse', halfword=hex(items[0][3]), text=items[0][2]), cap=1)


def rev_point(ctx, case):
    rev_task(ctx, [case['h']])


DRIVERS = {'fwd_point': fwd_point, 'text_point': text_point, 'rev_point': rev_point}


def run(tier, seed, t0):
    tasks = []
    for mn in isa.M16:
        axes = axes_for(mn)
        if axes and len(axes[0]) == 32 and len(axes) > 1:
            for r in range(0, 32, 4):
                tasks.append(dict(mn=mn, axes=[list(range(r, r + 4))] + axes[1:]))
        else:
            tasks.append(dict(mn=mn, axes=axes))
    m = kernel.explore(fwd_task, tasks)
    m = kernel.explore(rev_task, list(kernel.chunks(range(0x10000), 2048)), merged=m)
    # one-to-one: images of accepted tuples per mnemonic == legal halfwords per mnemonic
    counts = {}
    for mn in isa.M16:
        img, legal = len(m.sets.get('img:' + mn, ())), m.n['legal:' + mn]
        counts[mn] = legal
        if img != legal:
            ctx = kernel.Ctx()
            ctx.violation('%s:%s:image-count' % (PROP, mn), '%s: %d distinct halfwords produced from accepted tuples, %d legal halfwords'
                          % (mn, img, legal), 'none', dict(mn=mn), expected=legal, observed=img)
            m.add(ctx.pack())
    for k in [k for k in m.sets if k.startswith('img:')]:
        del m.sets[k]
    n = m.n
    cov = dict(states=n['points'] + n['halfwords'], transitions=n['enc_calls'] + n['text_lines'],
               traces_validated_against_impl=n['points'] + n['halfwords'] - n['halfwords_32bit_prefix'],
               evaluations=n['points'] + n['halfwords'], distinct_nontrivial=n['accepted'] + sum(counts.values()),
               rule='forward: every (mnemonic, operand tuple) with registers 0..31 and immediates from 3 scales+70 below the legal minimum to the same above '
                    'the maximum (plus far/wrap-around values); non-trivial = accepted by the encoder. reverse: all 65536 halfwords; non-trivial = legal RV32C',
               exhaustive=True, bound='complete in both tiers', legal_halfwords_per_mnemonic=counts,
               legal_halfwords=sum(counts.values()), accepted_tuples=n['accepted'], text_lines=n['text_lines'])
    return kernel.finish(PROP, tier, seed, t0, m, cov, [
        'reference RVC decoder mc/ref/rv32.py (quadrant tables of the C chapter incl. hint/reserved/illegal classes; all 28 461 legal halfwords agree with llvm-mc-14)',
        'canonical text = documented operand order of docs/instruction_reference.rst'])
