"""C10 - data directives emit exactly the documented bytes; misfitting values are refused (DESIGN.md section 3, C10).

Product explorer: every sequence / shorthand / pack directive x every value from below the signed minimum to above
the unsigned maximum (complete for 8 and 16 bits, boundary windows + walking bits for 32 and 64) x spelling (decimal,
hex, constant, expression); strings: every printable ASCII character alone and in all pairs, the documented escapes,
a non-ASCII alphabet in all pairs with ASCII, leading / trailing blanks; include_bytes: every one-byte file, sizes
0..64, file beside the source / in a sub-directory / in an include directory x working directory in {source dir,
unrelated dir, dir holding a same-named decoy of the same / a different size}.
Oracle: reference encoder mc/ref/data.py; a value that does not fit must yield no output.
"""
import os
import shutil

from mc import kernel
from mc.ref import data as D

PROP = 'C10'


def run_lines(ctx, asm, cases, driver):
    """cases = [dict(kind, line, prelude, expect(bytes|None))]; fitting lines are batched, misfits one per program"""
    good = [c for c in cases if c['expect'] is not None]
    for chunk in kernel.chunks(good, 256):
        pre = []
        for c in chunk:
            pre += c.get('prelude', [])
        src = '\n'.join(list(dict.fromkeys(pre)) + [c['line'] for c in chunk]) + '\n'
        ctx.count('programs')
        ctx.count('lines', len(chunk))
        want = b''.join(c['expect'] for c in chunk)
        try:
            out = bytes(asm.assemble(src))
        except Exception:
            out = None
        if out != want:
            ctx.count('programs', -1)
            ctx.count('lines', -len(chunk))
            for c in chunk:
                one(ctx, c)
    for c in cases:
        if c['expect'] is None:
            one(ctx, c)


def one(ctx, case):
    asm = kernel.boot()
    src = '\n'.join(case.get('prelude', []) + [case['line']]) + '\n'
    ctx.count('programs')
    ctx.count('lines')
    try:
        out = bytes(asm.assemble(src))
    except Exception as e:
        out, err = None, '%s: %s' % (type(e).__name__, kernel.errline(e)[:120])
    want = case['expect']
    if want is None:
        ctx.count('misfits')
        if out is not None:
            ctx.violation('%s:%s:misfit-accepted' % (PROP, case['kind']), '%r does not fit but emits %s' % (case['line'][:60], out.hex()),
                          'one', case, expected='refused', observed=out)
    elif out is None and case.get('may_refuse'):
        ctx.count('refused_spellings')      # an undocumented spelling of the keyword may be refused, but not turned into other bytes
    elif out is None:
        ctx.violation('%s:%s:refused' % (PROP, case['kind']), '%r is refused: %s' % (case['line'][:60], err), 'one', case, expected=want, observed=err)
    elif out != want:
        ctx.violation('%s:%s:wrong-bytes' % (PROP, case['kind']), '%r emits %s, expected %s' % (case['line'][:60], out[:24].hex(), want[:24].hex()),
                      'one', case, expected=want, observed=out)


def lines_task(ctx, cases):
    asm = kernel.boot()
    run_lines(ctx, asm, cases, 'one')
    ctx.sample(dict(line=cases[len(cases) // 2]['line'][:70], expect=(cases[len(cases) // 2]['expect'] or b'').hex() or 'refused'), cap=1)
    for c in cases:
        ctx.seen('kinds', c['kind'])


# ---------------------------------------------------------------------------------------------------------------
# include_bytes: generated file trees x working directories
# ---------------------------------------------------------------------------------------------------------------

def incb_case(ctx, case):
    """case = dict(content(bytes), where in {beside, sub, incdir}, cwd in {src, other, decoy-same, decoy-diff}, api in {path, cli})"""
    asm = kernel.boot()
    root = os.path.join(kernel.scratch('_incb'), 't%d' % os.getpid())
    shutil.rmtree(root, ignore_errors=True)
    src_dir, inc_dir, other, decoy = (os.path.join(root, d) for d in ('src', 'inc', 'other', 'decoy'))
    for d in (src_dir, os.path.join(src_dir, 'sub'), inc_dir, other, decoy):
        os.makedirs(d)
    content = case['content']
    where = case['where']
    name = case.get('name', 'blob.bin')
    if where == 'symlink':
        # src/assets -> <root>/real/pkg/assets ; the program writes assets/../NAME: the file system takes that to <root>/real/pkg/NAME (not to src/NAME, which holds other bytes)
        real = os.path.join(root, 'real', 'pkg')
        os.makedirs(os.path.join(real, 'assets'))
        os.symlink(os.path.join(real, 'assets'), os.path.join(src_dir, 'assets'))
        rel = 'assets/../' + name
        target = os.path.join(real, name)
        with open(os.path.join(src_dir, name), 'wb') as f:
            f.write(bytes(b ^ 0x33 for b in content) + b'!')
    else:
        rel = {'beside': name, 'sub': 'sub/' + name, 'incdir': name}[where]
        target = os.path.join(inc_dir if where == 'incdir' else src_dir, rel)
    with open(target, 'wb') as f:
        f.write(content)
    if name.lower() != name:
        for d in (os.path.dirname(target), inc_dir, src_dir):
            with open(os.path.join(d, os.path.basename(name).lower()), 'wb') as f:
                f.write(bytes(b ^ 0x5a for b in content))       # a case-folded twin with other bytes
    for d, payload in ((decoy, None),):
        same = bytes((b ^ 0xff) for b in content)                       # same size, different bytes
        diff = content + b'\x55'                                        # different size
        os.makedirs(os.path.join(d, 'same', 'sub'))
        os.makedirs(os.path.join(d, 'diff', 'sub'))
        for sub, pl in (('same', same), ('diff', diff)):
            os.makedirs(os.path.dirname(os.path.join(d, sub, rel)), exist_ok=True)
            with open(os.path.join(d, sub, rel), 'wb') as f:
                f.write(pl)
    main = os.path.join(src_dir, 'main.asm')
    with open(main, 'w') as f:
        f.write('db 1\ninclude_bytes %s\ndb 2\n' % rel)
    cwd = {'src': src_dir, 'other': other, 'decoy-same': os.path.join(decoy, 'same'), 'decoy-diff': os.path.join(decoy, 'diff')}[case['cwd']]
    old = os.getcwd()
    os.chdir(cwd)
    ctx.count('programs')
    ctx.count('incb_runs')
    try:
        try:
            # (for a mixed-case name the -i directory is searched too: it only holds the case-folded twin, which is a different file)
            out = bytes(asm.assemble(main, include_dirs=[inc_dir] if where == 'incdir' or name.lower() != name else None))
            err = None
        except BaseException as e:
            out, err = None, '%s: %s' % (type(e).__name__, kernel.errline(e)[:150])
    finally:
        os.chdir(old)
        shutil.rmtree(root, ignore_errors=True)
    want = b'\x01' + content + b'\x02'
    if out is None and case.get('may_refuse'):
        ctx.count('refused_names')          # a file name that looks like other syntax may be refused, but not silently turned into something else
        return
    if out != want:
        ctx.violation('%s:include_bytes:%s' % (PROP, 'wrong-bytes' if out is not None else 'refused'),
                      'include_bytes %s (%d bytes, file %s) assembled from cwd=%s gives %s' % (rel, len(content), where, case['cwd'], out.hex()[:40] if out is not None else err),
                      'incb_case', case, expected=want, observed=out if out is not None else err)


def incb_task(ctx, cases):
    for c in cases:
        incb_case(ctx, c)
    ctx.sample(dict(include_bytes=dict(cases[0], content=cases[0]['content'].hex())), cap=1)
    ctx.seen('kinds', 'include_bytes')


DRIVERS = {'one': one, 'incb_case': incb_case}


def values_for(width, tier):
    bits = 8 * width
    if width <= 2:
        return list(range(-(1 << (bits - 1)) - 300, (1 << bits) + 301))
    vals = set()
    for c in (-(1 << (bits - 1)), -1, 0, (1 << (bits - 1)), (1 << bits), -(1 << bits), (1 << (bits + 1))):
        vals.update(range(c - 300, c + 301))
    for k in range(bits + 2):
        vals.update(((1 << k), -(1 << k), (1 << k) - 1, -(1 << k) - 1, (1 << k) + 1))
    vals.update((0x12345678, 0x1122334455667788, -0x1122334455667788, 0x8000000000000000, 0xdeadbeef))
    return sorted(vals)


def spell(v, i):
    """-> (prelude, text): literal decimal / hex / constant / expression, rotating"""
    k = i % 4
    if k == 0:
        return [], str(v)
    if k == 1:
        return [], ('-' if v < 0 else '') + hex(abs(v))
    if k == 2:
        return ['K%d = %d' % (i, v)], 'K%d' % i
    return ['K%d = %d' % (i, v - 7)], 'K%d + 7' % i


def data_cases(tier):
    cases = []
    i = 0
    for name, w in D.SEQ_WIDTH.items():
        for v in values_for(w, tier):
            i += 1
            # sequences take literal integers only (documented): decimal / hex / binary
            txt = [str(v), ('-' if v < 0 else '') + hex(abs(v)), ('-' if v < 0 else '') + bin(abs(v))][i % 3]
            cases.append(dict(kind=name, line='%s %s' % (name, txt), expect=D.int_bytes(v, w)))
        # several values on one line
        cases.append(dict(kind=name, line='%s 1 -1 0x7f 0b10' % name, expect=b''.join(D.int_bytes(x, w) for x in (1, -1, 0x7f, 2))))
        cases.append(dict(kind=name, line='%s 1, 2,3 , 4' % name, expect=b''.join(D.int_bytes(x, w) for x in (1, 2, 3, 4))))
    for name, w in D.SHORT_WIDTH.items():
        for v in values_for(w, tier):
            i += 1
            pre, txt = spell(v, i)
            cases.append(dict(kind=name, line='%s %s' % (name, txt), prelude=pre, expect=D.int_bytes(v, w)))
    for end in '<>':
        for ch, (w, signed) in D.PACK.items():
            fmt = end + ch
            for v in values_for(w, tier):
                i += 1
                pre, txt = spell(v, i)
                sep = (' ', ', ')[i % 2]
                cases.append(dict(kind='pack' + fmt, line='pack %s%s%s' % (fmt, sep, txt), prelude=pre, expect=D.pack_bytes(fmt, v)))
    return cases


ASCII = [chr(c) for c in range(0x20, 0x7f)]
NONASCII = ['é', 'ü', 'ß', '€', '日', '\U0001f600', '\u2028', '\u2029', '\x85', '\u00a0', '\u200b']     # incl. characters str.splitlines() treats as line breaks and odd blanks
ESC = ['\\\\', '\\n', '\\t', '\\r', '\\0', "\\'", '\\"', '\\x41', '\\x7f', '\\xe9', '\\u00e9', '\\u20ac', '\\u65e5']


def string_cases(tier):
    texts = []
    plain = [c for c in ASCII if c != '\\']
    texts += plain
    texts += [a + b for a in plain for b in plain]
    texts += ESC + [a + e + b for e in ESC for a in ('', 'x', ' ') for b in ('', 'y', '#')]
    texts += NONASCII + [a + n + b for n in NONASCII for a in ['', 'a', ' ', '#'] + NONASCII for b in ['', 'z', '"'] + NONASCII[:2]]
    texts += ['hello', '"world"', '"hello world"', 'hello  ##  world', 'hello\\nworld', '  hello\\\\nworld', 'a, b (c) = d:', 'trailing  ', '  lead', 'x' * 300,
              'string string', 'include foo', '= 5', 'A:', '%hi(1)', "it's"]
    cases = []
    for i, t in enumerate(dict.fromkeys(texts)):
        if not t.strip():
            continue         # blank-only strings are outside the documented grammar (the line would be empty)
        indent = ('', '  ', '\t')[i % 3]
        cases.append(dict(kind='string', line=indent + 'string ' + t, expect=D.string_bytes(t)))
    # the keyword written in another case / followed by a tab: not a documented spelling, so refusing it is fine, but a line that IS accepted as a string must emit its text
    for t in ['hello', 'a b', 'a, b', 'a#b', 'x\\ny', '(q)', 'it\'s', 'caf\u00e9', 'a\tb', 'two  spaces ']:
        for kw in ('string\t', 'STRING ', 'String ', 'STRING\t', 'string \t'):
            text = '\t' + t if kw == 'string \t' else t
            cases.append(dict(kind='string-keyword', line=kw + t, expect=D.string_bytes(text), may_refuse=True))
    return cases


def incb_cases(tier):
    cases = []
    contents = [bytes([b]) for b in range(256)] + [bytes((7 * i + n) & 0xff for i in range(n)) for n in list(range(0, 65)) + [255, 256, 1000]]
    for n, content in enumerate(contents):
        wheres = ('beside', 'sub', 'incdir') if (tier == 'thorough' or n % 8 == 0 or n >= 256) else (('beside', 'sub', 'incdir')[n % 3],)
        for where in wheres:
            for cwd in ('src', 'other', 'decoy-same', 'decoy-diff'):
                cases.append(dict(content=content, where=where, cwd=cwd))
    # file names with upper-case letters, digits, dots and dashes (the written name must be used as written)
    for n, content in enumerate([b'\x01', b'\x10\x20\x30', bytes(range(40))]):
        for cwd in ('src', 'other', 'decoy-same'):
            cases.append(dict(content=content, where='symlink', cwd=cwd))
    for name in ('Logo.DAT', 'FONT-8x8.Bin', 'a.b.c', 'X', '=', 'a=b', '==', 'x:', '%hi', 'string', 'include_bytes', '0x10', '-1'):      # names that look like other syntax
        for where in ('beside', 'sub', 'incdir'):
            for cwd in ('src', 'other', 'decoy-same'):
                cases.append(dict(content=b'\x11\x22\x33', where=where, cwd=cwd, name=name, may_refuse=not name[0].isalpha() or not name.replace('.', '').replace('-', '').isalnum()))
    return cases


def run(tier, seed, t0):
    dc = data_cases(tier)
    sc = string_cases(tier)
    m = kernel.explore(lines_task, list(kernel.chunks(dc, 2000)) + list(kernel.chunks(sc, 1500)))
    ic = incb_cases(tier)
    m = kernel.explore(incb_task, list(kernel.chunks(ic, 64)), merged=m)
    n = m.n
    cov = dict(states=len(dc) + len(sc) + len(ic), transitions=n['programs'], traces_validated_against_impl=n['lines'] + n['incb_runs'],
               evaluations=n['lines'] + n['incb_runs'], distinct_nontrivial=n['lines'] + n['incb_runs'] - n['misfits'],
               rule='one state per (directive, value, spelling) / string text / (file content, location, working directory); fitting values are assembled in batches of 256 '
                    'lines and compared with the reference bytes, misfits one per program and must be refused; non-trivial = cases that must produce bytes',
               exhaustive=True, kinds=sorted(m.sets['kinds']), misfits=n['misfits'], data_cases=len(dc), string_cases=len(sc), include_bytes_cases=len(ic),
               bound='8/16-bit: every value from min-300 to 2^w+300; 32/64-bit: +-300 around -2^(w-1), -1, 0, 2^(w-1), 2^w, -2^w, 2^(w+1) and walking bits; 5 sequences, '
                     '4 shorthands, 20 pack formats; strings: 94 printable characters alone and in all pairs, 13 escapes in context, 6 non-ASCII characters in all pairs with '
                     'ASCII and each other; include_bytes: 256 one-byte files + sizes 0..64, 255, 256, 1000 x 3 locations x 4 working directories')
    return kernel.finish(PROP, tier, seed, t0, m, cov, [
        'reference encoder mc/ref/data.py (little-endian two\'s complement, documented signedness inference, struct format ranges, UTF-8 after backslash escapes)',
        'escape alphabet = \\\\ \\n \\t \\r \\0 \\\' \\" \\xNN \\uNNNN; undefined escapes and blank-only strings are outside the documented grammar',
        '"refused" = any exception (its type is C15\'s concern)'])
