"""C13 - documented spelling variants of the same program assemble to identical bytes (DESIGN.md section 3, C13).

Product explorer: representative lines of every lexer-level item kind x the product of the documented freedoms -
indentation, trailing comment, blank / comment lines in front, separator per operand gap (comma, blanks, tab), register
spelling per register (number, xN, ABI alias, fp), integer spelling per integer (decimal, hex, binary), `imm(reg)`
versus `reg, imm`.  Plus whole programs with several variants per line in full product.  Oracle: bytes and label
table identical to those of the canonical spelling (same mode).
"""
import itertools

from mc import isa, kernel

PROP = 'C13'

INDENTS = ['', '  ', '\t', '        ']
COMMENTS = ['', ' # c', '# c', '  # addi x1, x1, 1 (not code)', ' #', '  # next element:', " # K = 5, 'x' (y) %hi", "#'lbl' is hot", " #'", "  # it's", ' # ctrl \x00 \x0c chars']      # comment texts that look like a label / constant / operands
FRONTS = ['', '\n', '# comment\n', '   \n\t# c\n\n', '# Tables:\n  # string x\n']
SEPS = [', ', ' ', ',', ' , ', '\t', ',\t', '  ']

# operand: ('r', n) register, ('i', v) integer, ('t', text) fixed text
LINES = {
    'R':      ('add', [('r', 5), ('r', 6), ('r', 8)], None),
    'I':      ('addi', [('r', 8), ('r', 9), ('i', -5)], None),
    'shift':  ('slli', [('r', 8), ('r', 8), ('i', 3)], None),
    'load':   ('lw', [('r', 9), ('r', 8), ('i', 8)], 'rd'),
    'loadb':  ('lbu', [('r', 5), ('r', 2), ('i', -1)], 'rd'),
    'store':  ('sw', [('r', 8), ('r', 9), ('i', 4)], 'rs2'),
    'jalr':   ('jalr', [('r', 1), ('r', 5), ('i', 8)], 'rd'),
    'c.lw':   ('c.lw', [('r', 8), ('r', 9), ('i', 4)], 'rd'),
    'c.sw':   ('c.sw', [('r', 8), ('r', 9), ('i', 8)], 'rs2'),
    'B':      ('beq', [('r', 8), ('r', 9), ('i', 16)], None),
    'U':      ('lui', [('r', 8), ('i', 0x12345)], None),
    'J':      ('jal', [('r', 1), ('i', 2048)], None),
    'amo':    ('amoadd.w', [('r', 8), ('r', 9), ('r', 10), ('i', 1), ('i', 0)], None),
    'lr':     ('lr.w', [('r', 8), ('r', 9)], None),
    'fence':  ('fence', [('i', 3), ('i', 12)], None),
    'csr':    ('csrrw', [('r', 1), ('r', 2), ('i', 0x300)], None),
    'csri':   ('csrrwi', [('r', 1), ('i', 5), ('i', 0x300)], None),
    'li':     ('li', [('r', 8), ('i', 100)], None),
    'lineg':  ('li', [('r', 15), ('i', -70000)], None),
    'mv':     ('mv', [('r', 8), ('r', 9)], None),
    'c.addi': ('c.addi', [('r', 8), ('i', 5)], None),
    'c.mv':   ('c.mv', [('r', 8), ('r', 9)], None),
    'db':     ('db', [('i', 7)], None),
    'dw':     ('dw', [('i', 0x12345678)], None),
    'bytes':  ('bytes', [('i', 1), ('i', 2), ('i', 0x7f)], None),
    'shorts': ('shorts', [('i', 0x1234), ('i', 5)], None),
    'pack':   ('pack', [('t', '<B'), ('i', 200)], None),
    'packh':  ('pack', [('t', '>h'), ('i', -2)], None),
    'align':  ('align', [('i', 4)], None),
    'charlit': ('addi', [('r', 8), ('r', 0), ('t', "'A'")], None),
    'chardb': ('db', [('t', "'#'")], None),
    'ecall':  ('ecall', [], None),
    'nop':    ('nop', [], None),
}


def reg_sp(n):
    return isa.reg_spellings(n)[:3] + (['fp'] if n == 8 else [])


def int_sp(v):
    return isa.int_spellings(v)


def canonical(kind):
    mn, ops, _ = LINES[kind]
    toks = [('x%d' % o[1]) if o[0] == 'r' else (str(o[1]) if o[0] == 'i' else o[1]) for o in ops]
    return (mn + ' ' + ', '.join(toks)).strip()


def variants(kind, tier):
    """yield variant source texts (possibly with front lines) of one line kind: full product in `thorough`, a stated
    sub-product (each dimension in full, the others on 2-3 values) in `quick`"""
    mn, ops, base = LINES[kind]
    ops_sp = [reg_sp(o[1]) if o[0] == 'r' else (int_sp(o[1]) if o[0] == 'i' else [o[1]]) for o in ops]
    ngaps = max(len(ops) - 1, 0)
    if kind == 'align':
        ops_sp = [[str(ops[0][1]), hex(ops[0][1])]]        # `align` takes a literal integer: int(x, 0)

    def build(ind, com, front, first, seps, toks, offs):
        if offs:
            a, b, imm = toks        # rd/rs2, rs1 order depends on the mnemonic family
            if base == 'rs2':       # sw rs1, rs2, imm  <->  sw rs2, imm(rs1)
                body = '%s%s%s%s(%s)' % (b, seps[0], imm, offs, a)
            else:                   # lw rd, rs1, imm  <->  lw rd, imm(rs1)
                body = '%s%s%s%s(%s)' % (a, seps[0], imm, offs, b)
        else:
            body = ''
            for i, t in enumerate(toks):
                body += t + (seps[i] if i < len(toks) - 1 else '')
        return front + ind + mn + (first if toks else '') + body + com

    offs_opts = [None] + (['', ' '] if base else [])
    full_count = len(INDENTS) * len(COMMENTS) * len(FRONTS) * 3 * (5 ** ngaps) * len(offs_opts)
    for sp in ops_sp:
        full_count *= len(sp)
    if tier == 'thorough' and full_count <= 3000000:      # the 5-operand AMO line would need 3.6e7 variants: it keeps the sweep below
        for ind, com, front, first in itertools.product(INDENTS, COMMENTS, FRONTS, [' ', '\t', '  ']):
            for seps in itertools.product(SEPS[:5], repeat=ngaps):
                for toks in itertools.product(*ops_sp):
                    for offs in offs_opts:
                        yield build(ind, com, front, first, seps, toks, offs)
        return
    # quick: sweep every dimension fully while the others take 2 values
    small = dict(ind=INDENTS[:2], com=COMMENTS[:2], front=FRONTS[:2], first=[' ', '\t'])
    seen = set()
    dims = ['ind', 'com', 'front', 'first', 'seps', 'toks', 'offs']
    full = dict(ind=INDENTS, com=COMMENTS, front=FRONTS, first=[' ', '\t', '  '],
                seps=list(itertools.product(SEPS, repeat=ngaps)), toks=list(itertools.product(*ops_sp)), offs=offs_opts)
    few = dict(small, seps=list(itertools.product(SEPS[:2], repeat=ngaps))[:4], toks=list(itertools.product(*[s[:2] for s in ops_sp]))[:4], offs=offs_opts[:2])
    for sweep in dims:
        axes = [full[d] if d == sweep else few[d] for d in dims]
        for ind, com, front, first, seps, toks, offs in itertools.product(*axes):
            t = build(ind, com, front, first, seps, toks, offs)
            if t not in seen:
                seen.add(t)
                yield t
    # pairwise: separators x spellings jointly
    for seps in full['seps']:
        for toks in full['toks']:
            t = build('', '', '', ' ', seps, toks, None)
            if t not in seen:
                seen.add(t)
                yield t


def assemble(asm, src, comp):
    labels = {}
    try:
        return bytes(asm.assemble(src, compress=comp, labels=labels)), labels
    except Exception as e:
        return '%s: %s' % (type(e).__name__, kernel.errline(e)[:150]), labels


def variant_case(ctx, case):
    """case = dict(kind, variants=[text], compress)"""
    asm = kernel.boot()
    kind, comp = case['kind'], case['compress']
    canon = canonical(kind)
    ref, _ = assemble(asm, canon + '\n', comp)
    if isinstance(ref, str):
        raise RuntimeError('canonical line %r does not assemble: %s' % (canon, ref))
    vs = case['variants']
    ctx.count('programs')
    ctx.count('variants', len(vs))
    if kind == 'align':
        # pad to a known residue first: db 1 + align
        out, _ = assemble(asm, '\n'.join('db 1\n' + v for v in vs) + '\n', comp)
        want = (b'\x01' + b'\x00' * 3) * len(vs)
    else:
        out, _ = assemble(asm, '\n'.join(vs) + '\n', comp)
        want = ref * len(vs)
    if out == want:
        return
    if len(vs) > 1:
        ctx.count('programs', -1)
        ctx.count('variants', -len(vs))
        for v in vs:
            variant_case(ctx, dict(kind=kind, variants=[v], compress=comp))
        return
    ctx.violation('%s:%s:%s' % (PROP, kind, 'refused' if isinstance(out, str) else 'different-bytes'),
                  'variant %r gives %s, canonical %r gives %s (compress=%s)' % (vs[0], out if isinstance(out, str) else out.hex(), canon, want.hex(), comp),
                  'variant_case', case, expected=want, observed=out)


def variant_task(ctx, task):
    vs = list(variants(task['kind'], task['tier']))
    vs = vs[task['part']::task['parts']]
    for comp in (False, True):
        for ch in kernel.chunks(vs, 400):
            variant_case(ctx, dict(kind=task['kind'], variants=ch, compress=comp))
    if vs:
        ctx.sample(dict(kind=task['kind'], canonical=canonical(task['kind']), variant=vs[len(vs) // 2]), cap=1)
    ctx.seen('kinds', task['kind'])


# whole programs: labels, constants, several lines; variants per line in full product
PROGRAM = [
    ['start:', '  start:  # entry', '\tstart:# x', 'start:    '],
    ['K = 5', 'K  =  0x5', '\tK = 0b101 # five', '  K = 5#c'],
    ['addi x8, x8, K', 'addi s0 8 K', '\taddi fp,x8,K # c', 'addi 8, s0 ,K'],
    ['loop:', ' loop: # l', 'loop:\t'],
    ['lw x9, x8, 4', 'lw s1, 4(s0)', 'lw 9 0x4 ( x8 )', '  lw x9,4(8)# c', 'lw s1, fp, 0b100'],
    ['bne x9, x0, loop', 'bne s1 zero loop', '\tbne 9,0,loop # back', 'bne x9 , zero , loop'],
    ['string hi # there', '  string hi # there', '\tstring hi # there'],
    ['jal x0, start', 'jal zero start', 'j start', '  jal 0,start'],
]


def program_case(ctx, case):
    asm = kernel.boot()
    for comp in (False, True):
        ref, rl = assemble(asm, '\n'.join(p[0] for p in PROGRAM) + '\n', comp)
        ctx.count('programs')
        ctx.count('variants')
        fronts = case.get('fronts') or [''] * len(PROGRAM)
        src = ''.join(f + PROGRAM[i][j] + '\n' for i, (j, f) in enumerate(zip(case['choice'], fronts)))
        out, labels = assemble(asm, src, comp)
        if out != ref or labels != rl:
            ctx.violation('%s:program:%s' % (PROP, 'labels' if out == ref else ('refused' if isinstance(out, str) else 'different-bytes')),
                          'program variant gives %s / %r, canonical %s / %r' % (out if isinstance(out, str) else out.hex(), labels, ref.hex(), rl),
                          'program_case', case, expected=dict(out=ref, labels=rl), observed=dict(out=out, labels=labels))


def program_task(ctx, choices):
    for ch in choices:
        program_case(ctx, dict(choice=list(ch)))
        # the same choice with blank / comment lines interleaved
        program_case(ctx, dict(choice=list(ch), fronts=[FRONTS[(i + sum(ch)) % len(FRONTS)] for i in range(len(PROGRAM))]))
    ctx.sample(dict(kind='program', lines=[PROGRAM[i][j] for i, j in enumerate(choices[0])]), cap=1)
    ctx.seen('kinds', 'program')


DRIVERS = {'variant_case': variant_case, 'program_case': program_case}


def run(tier, seed, t0):
    parts = 16 if tier == 'quick' else 64
    tasks = [dict(kind=k, tier=tier, part=p, parts=parts) for k in LINES for p in range(parts)]
    m = kernel.explore(variant_task, tasks)
    choices = list(itertools.product(*[range(len(p)) for p in PROGRAM]))
    if tier == 'quick':
        choices = [c for c in choices if sum(1 for x in c if x) <= 3 or len(set(c)) == 1]      # up to 3 lines rewritten at a time (and all-same rows)
    m = kernel.explore(program_task, list(kernel.chunks(choices, 60)), merged=m)
    n = m.n
    cov = dict(states=n['variants'], transitions=n['programs'], traces_validated_against_impl=n['variants'], evaluations=n['variants'],
               distinct_nontrivial=n['variants'],
               rule='one state per distinct spelling variant (a rewritten line or a rewritten whole program) x mode; variants of one line are assembled 400 per program and compared '
                    'with the canonical bytes; every variant differs textually from the canonical line, so all are non-trivial',
               exhaustive=True, kinds=sorted(m.sets['kinds']),
               bound=('full product of indent x comment x front lines x mnemonic gap x separator per operand gap x spelling per register x spelling per integer x offset syntax for the %d line kinds whose product has <= 3e6 variants (dimension sweeps for the rest); '
                      'whole 8-line program: full product of 3-5 variants per line' % len(LINES)) if tier == 'thorough' else
                     ('%d line kinds: every dimension swept in full against 2-value settings of the others, plus separators x spellings jointly; whole 8-line program: all choices '
                      'rewriting up to 3 lines at a time, each also with blank / comment lines interleaved' % len(LINES)))
    return kernel.finish(PROP, tier, seed, t0, m, cov, [
        'only the documented freedoms are used: commas / blanks / tabs between operands, blank and comment lines, indentation, number / xN / ABI register spellings, decimal / hex / binary integers, imm(reg)',
        'reader-level directives (include, include_bytes) are matched on the raw line and are covered by C14 / C10; a string literal runs to the end of the line (documented), so only its indentation varies'])
