"""C18 - a completed DFU run leaves the device flash equal to the firmware image (DESIGN.md section 3, C18).

Closed system: the real dfu.cli_main() <-> the DfuSe device model of mc/ref/dfuse.py with a virtual clock.
(a) every firmware length 0..flash size (16-page variant quick, all four GD32 variants thorough) under three uniform
schedules, plus constant / partly blank image contents and a very slow device around the page boundaries; (b) stateless choice/deviation exploration of the device's timing freedom (starts in dfuERROR or not; per
DNLOAD 0 / 1 / 2 busy answers; per answer a poll delay of 0 / 5 / 256 / 65536 ms): every schedule with <= 2 deviations
from the default for 1-4 pages, and ALL schedules for a one-page image.
Oracle = monitor inside the device (every address page aligned and inside flash, a page is written only after it was
erased, no request while the requested poll delay has not elapsed) + end state (flash = image + zero padding, every
other page bit-identical and never erased / written, exit status 0).
"""
from mc import kernel
from mc.ref import dfuse

PROP = 'C18'
VARIANTS = [16, 32, 64, 128]
UNIFORM = {'default': (1, 5), 'never-busy': (0, 0), 'busy-twice-long': (2, 0x010000), 'busy-300': (300, 0)}     # busy-300: a very slow device (used on a sub-set of lengths)
CONTENTS = ['zeros', 'ff', 'zpage', 'ffpage', 'lastzero']                                                     # image contents besides the default ramp


def judge(ctx, r, pages, fw, driver, case, prop=PROP):
    dev = r.dev
    need = (len(fw) + dfuse.PAGE - 1) // dfuse.PAGE
    image = fw + b'\x00' * (need * dfuse.PAGE - len(fw))
    probs = []
    for v in dev.violations:
        probs.append(('monitor:' + v.split()[0] + '-' + v.split()[1], v))
    if r.status != 0 or not r.done:
        probs.append(('exit', 'run ends with status %r, done=%s: %s' % (r.status, r.done, r.stdout[-120:])))
    if bytes(dev.flash[:len(image)]) != image:
        bad = next(i for i in range(len(image)) if dev.flash[i] != image[i])
        probs.append(('flash:image', 'flash differs from the image at offset %#x (page %d): %#04x, expected %#04x' % (bad, bad // dfuse.PAGE, dev.flash[bad], image[bad])))
    if bytes(dev.flash[len(image):]) != dev.init[len(image):]:
        bad = next(i for i in range(len(image), dev.size) if dev.flash[i] != dev.init[i])
        probs.append(('flash:other-page', 'page %d beyond the image was modified' % (bad // dfuse.PAGE)))
    extra = sorted(set(p for p in dev.touched_erase + dev.touched_write if p >= need))
    if extra:
        probs.append(('touched-other-page', 'pages %s beyond the image were erased / written' % extra))
    if sorted(set(dev.touched_write)) != list(range(need)) and not probs:
        probs.append(('pages-written', 'pages written %s, expected 0..%d' % (sorted(set(dev.touched_write)), need - 1)))
    for key, msg in probs[:2]:
        ctx.violation('%s:%s' % (prop, key), '%d-page device, %d-byte firmware, schedule %s: %s' % (pages, len(fw), case.get('prefix', case.get('uniform')), msg),
                      driver, case, expected='flash = image, nothing else touched, protocol respected', observed=dict(status=r.status, violations=dev.violations[:4]))
    return not probs


def observe(ctx, r):
    ctx.count('runs')
    ctx.count('transfers', len(r.dev.requests))
    ctx.count('sleeps', len(r.clock.sleeps))
    for ev in r.dev.trace:
        ctx.seen('joint', str(ev))


def sched_case(ctx, case):
    """one schedule: case = dict(pages, length, prefix | uniform)"""
    fw = dfuse.firmware(case['length'], case.get('content', 'ramp'))
    uni = UNIFORM[case['uniform']] if case.get('uniform') else None
    r = dfuse.run_host(case['pages'], fw, prefix=case.get('prefix', ()), uniform=uni, via=case.get('via', 'file'))
    observe(ctx, r)
    judge(ctx, r, case['pages'], fw, 'sched_case', case)
    return r


def length_task(ctx, task):
    for n in task['lengths']:
        for u in task['uniforms']:
            for content in task.get('contents', ['ramp']):
                case = dict(pages=task['pages'], length=n, uniform=u)
                if content != 'ramp':
                    case['content'] = content
                if task.get('via'):
                    case['via'] = task['via']
                sched_case(ctx, case)
    ctx.count('lengths', len(task['lengths']))
    ctx.sample(dict(sweep='length', pages=task['pages'], length=task['lengths'][0], schedules=task['uniforms']), cap=1)


def cost(choices):
    return sum(1 for c in choices if c)


def explore(ctx, pages, length, bound, prefix, stats):
    """the deviation-bounded recursion of the brief: run the prefix (defaults afterwards), then branch on every later choice point"""
    case = dict(pages=pages, length=length, prefix=list(prefix))
    r = sched_case(ctx, case)
    ch = r.chooser.choices()
    stats['schedules'] += 1
    if cost(ch) > 0:
        stats['with_deviation'] += 1
    if stats['schedules'] <= stats['recheck']:
        # replay determinism: the same schedule must give the same observations
        r2 = dfuse.run_host(pages, dfuse.firmware(length), prefix=prefix)
        if (r2.dev.trace, r2.stdout, r2.chooser.points) != (r.dev.trace, r.stdout, r.chooser.points):
            raise RuntimeError('NONDETERMINISM: schedule %r replayed differently' % (prefix,))
        ctx.count('replay_checks')
    base = cost(ch[:len(prefix)])
    for i in range(len(prefix), len(r.chooser.points)):
        arity = r.chooser.points[i][0]
        if bound is not None and base + cost(ch[len(prefix):i]) + 1 > bound:
            continue
        for alt in range(1, arity):
            explore(ctx, pages, length, bound, ch[:i] + [alt], stats)


def sched_task(ctx, task):
    stats = dict(schedules=0, with_deviation=0, recheck=task.get('recheck', 3))
    explore(ctx, task['pages'], task['length'], task['bound'], task['prefix'], stats)
    ctx.count('schedules', stats['schedules'])
    ctx.count('nontrivial', stats['with_deviation'])
    ctx.sample(dict(sweep='schedules', pages=task['pages'], length=task['length'], bound=task['bound'], first_prefix=task['prefix']), cap=1)


DRIVERS = {'sched_case': sched_case}


def first_level(pages, length):
    """the default run's choice points -> one task per first deviation (plus the default schedule itself)"""
    r = dfuse.run_host(pages, dfuse.firmware(length))
    pts = r.chooser.points
    out = []
    for i, (arity, tag, c) in enumerate(pts):
        for alt in range(1, arity):
            out.append([0] * i + [alt])
    return out


def run(tier, seed, t0):
    kernel.boot()
    tasks = []
    variants = [16] if tier == 'quick' else VARIANTS
    for pages in variants:
        for ch in kernel.chunks(range(0, pages * dfuse.PAGE + 1), 64 if pages <= 32 else 24):
            tasks.append(dict(pages=pages, lengths=list(ch), uniforms=[u for u in UNIFORM if u != 'busy-300']))
    # image contents (constant 0x00 / 0xFF images, blank pages inside the image, a trailing zero byte) and a very slow device, at the lengths around every page boundary
    for pages in variants:
        ls = sorted({n for p in range(0, pages + 1) for n in (p * 1024 - 1, p * 1024, p * 1024 + 1, p * 1024 + 512) if 0 <= n <= pages * 1024})
        if tier == 'quick':
            ls = [n for n in ls if n <= 5 * 1024 + 1 or n >= (pages - 1) * 1024 - 1]
        for ch in kernel.chunks(ls, 8):
            tasks.append(dict(pages=pages, lengths=list(ch), uniforms=['default', 'never-busy'], contents=CONTENTS))
        for ch in kernel.chunks([n for n in ls if n <= 3 * 1024 + 1 or n == pages * 1024], 2):
            tasks.append(dict(pages=pages, lengths=list(ch), uniforms=['busy-300']))
    if tier == 'quick':
        # the other three variants at the lengths around every page boundary
        for pages in VARIANTS[1:]:
            ls = sorted({n for p in range(0, pages + 1) for n in (p * 1024 - 1, p * 1024, p * 1024 + 1) if 0 <= n <= pages * 1024})
            for ch in kernel.chunks(ls, 12):
                tasks.append(dict(pages=pages, lengths=list(ch), uniforms=['default']))
            for ch in kernel.chunks([n for n in ls if n <= 2049 or n >= (pages - 1) * 1024], 6):
                tasks.append(dict(pages=pages, lengths=list(ch), uniforms=['default'], contents=CONTENTS))
    # the firmware handed over through a named pipe
    for pages in VARIANTS:
        tasks.append(dict(pages=pages, lengths=[1, 1024, 1025, pages * 1024 - 1, pages * 1024], uniforms=['default'], via='fifo'))
    m = kernel.explore(length_task, tasks)
    stasks = []
    # all schedules of a one-page image (unbounded deviations), split on the first deviation
    for length in ((1000,) if tier == 'quick' else (1, 1000, 1024)):
        stasks.append(dict(pages=16, length=length, bound=0, prefix=[]))
        for p in first_level(16, length):
            stasks.append(dict(pages=16, length=length, bound=None, prefix=p))
    # <= 2 (quick) / <= 3 (thorough) deviations for 2-4 (2-6) pages
    b = 2 if tier == 'quick' else 3
    for npages, length in ((2, 1025), (3, 3072), (4, 3073 + 512)) + (((5, 5000), (6, 6144)) if tier == 'thorough' else ()):
        stasks.append(dict(pages=16, length=length, bound=0, prefix=[]))
        for p in first_level(16, length):
            stasks.append(dict(pages=16, length=length, bound=b, prefix=p))
    for pages in VARIANTS[1:]:
        stasks.append(dict(pages=pages, length=2048, bound=0, prefix=[]))
        for p in first_level(pages, 2048):
            stasks.append(dict(pages=pages, length=2048, bound=1, prefix=p))
    m = kernel.explore(sched_task, stasks, merged=m)
    n = m.n
    joint = len(m.sets['joint'])
    del m.sets['joint']
    cov = dict(states=joint, transitions=n['transfers'] + n['sleeps'], traces_validated_against_impl=n['runs'], evaluations=n['runs'],
               distinct_nontrivial=n['nontrivial'],
               rule='states = distinct (device event, device state, poll delay) observations of the monitor; transitions = control transfers + sleeps of the real host; one trace = one '
                    'complete execution of dfu.cli_main(); non-trivial = schedules with at least one deviation from the default answer',
               exhaustive=True, runs=n['runs'], lengths=n['lengths'], schedules=n['schedules'], replay_determinism_checks=n['replay_checks'],
               bound='lengths 0..flash size of the %s under 3 uniform schedules%s; 5 further image contents (all 0x00, all 0xFF, blank pages inside the image, trailing zero) and a device that is busy 300 polls per '
                     'operation at the lengths around page boundaries; ALL schedules (unbounded deviations) of a one-page image; every schedule with <= %d deviations for '
                     '2-%d pages; <= 1 deviation on the other variants' % ('16-page variant' if tier == 'quick' else 'four GD32 variants',
                                                                          ' (other variants: lengths around every page boundary)' if tier == 'quick' else '', b, 4 if tier == 'quick' else 6))
    return kernel.finish(PROP, tier, seed, t0, m, cov, [
        'device model mc/ref/dfuse.py written from DFU 1.1 + ST DfuSe (erase 0x41, set address 0x21, data blocks at pointer + (wValue-2) * 1024, NOR erase -> 0xFF, program = AND)',
        'virtual clock advanced only by time.sleep; real USB timing and devices other than the four GD32 variants are out of scope',
        'the product of all lengths x all schedules is not enumerated: lengths are exhaustive under three uniform schedules, schedules up to the deviation bound on 1-6 pages'])
