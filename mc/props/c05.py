"""C05 - pseudo-instructions have exactly the effect the instruction reference documents (DESIGN.md section 3, C05).

Product explorer: 27 pseudo-instructions x all register choices (rd = rs, x0, sp included) x compression off/on x
register files in which the source registers range over the value alphabet V (V x V for two sources) and every
other register holds a distinct sentinel; li over all 32 rd x a structured value set (every low-13-bit pattern,
the short/long thresholds in both spellings, every c.lui edge); transfers at every distance class.  The emitted
bytes are located by the reference walker, decoded and *executed* on the reference ISS; the post-state must equal
the documented function and nothing else may change.  The oracle is the documented effect, not the documented
expansion, so a different but equivalent expansion is not an alarm.
"""
import itertools

from mc import kernel, progs
from mc.ref import layout as L
from mc.ref import rv32

PROP = 'C05'
M32 = 0xffffffff
V = L.VALS
S32 = lambda v: rv32.sext(v, 32)

ONE_SRC = {'mv': lambda a: a, 'not': lambda a: ~a, 'neg': lambda a: -a, 'seqz': lambda a: int(a == 0), 'snez': lambda a: int(a != 0),
           'sltz': lambda a: int(S32(a) < 0), 'sgtz': lambda a: int(S32(a) > 0)}
BR1 = {'beqz': lambda a: a == 0, 'bnez': lambda a: a != 0, 'blez': lambda a: S32(a) <= 0, 'bgez': lambda a: S32(a) >= 0,
       'bltz': lambda a: S32(a) < 0, 'bgtz': lambda a: S32(a) > 0}
BR2 = {'bgt': lambda a, b: S32(a) > S32(b), 'ble': lambda a, b: S32(a) <= S32(b), 'bgtu': lambda a, b: a > b, 'bleu': lambda a, b: a <= b}
ALL27 = ['nop', 'li'] + list(ONE_SRC) + list(BR1) + list(BR2) + ['j', 'jal', 'jr', 'jalr', 'ret', 'call', 'tail', 'fence']
assert len(ALL27) == 27


def sources(it):
    n, o = it['name'], it['ops']
    if n in ONE_SRC:
        return [o[1]]
    if n in BR1:
        return [o[0]]
    if n in BR2:
        return [o[0], o[1]]
    if n in ('jr', 'jalr'):
        return [o[0]]
    if n == 'ret':
        return [1]
    return []


def states(it):
    """pre-states: sentinels everywhere, the source registers ranging over V (V x V)"""
    src = [r for r in dict.fromkeys(sources(it)) if r != 0]
    if it['name'] in ('jr', 'jalr', 'ret'):
        vals = [(0x40,), (0x43,), (0x1000,), (0xfffffffe,), (0x80000001,)]     # jump targets: odd values must be cleared
        vals = vals if src else [()]
    elif len(src) == 2:
        vals = list(itertools.product(V, V))
    elif len(src) == 1:
        vals = [(a,) for a in V]
    else:
        vals = [()]
    for vs in vals:
        regs = list(L.SENT)
        for r, v in zip(src, vs):
            regs[r] = v
        yield regs


def expected(it, regs, cur, size, labels):
    """documented effect -> (registers, pc, free) ; free = registers that may hold anything"""
    n, o = it['name'], it['ops']
    x = list(regs)
    pc = (cur + size) & M32
    free = set()

    def wr(r, v):
        if r:
            x[r] = v & M32

    env = labels

    class _T(dict):      # a numeric operand of a transfer is a pc-relative offset, a name is a label
        def __getitem__(self, t):
            return (cur + t) if isinstance(t, int) else env[t]
    labels = _T()
    if n in ('nop', 'fence'):
        pass
    elif n == 'li':
        wr(o[0], o[1])
    elif n in ONE_SRC:
        wr(o[0], ONE_SRC[n](regs[o[1]]))
    elif n in BR1:
        if BR1[n](regs[o[0]]):
            pc = labels[o[1]] & M32
    elif n in BR2:
        if BR2[n](regs[o[0]], regs[o[1]]):
            pc = labels[o[2]] & M32
    elif n == 'j':
        pc = labels[o[0]] & M32
    elif n == 'jal':
        wr(1, cur + size)
        pc = labels[o[0]] & M32
    elif n == 'jr':
        pc = regs[o[0]] & ~1 & M32
    elif n == 'jalr':
        pc = regs[o[0]] & ~1 & M32
        wr(1, cur + size)
    elif n == 'ret':
        pc = regs[1] & ~1 & M32
    elif n == 'call':
        wr(1, cur + size)
        pc = labels[o[0]] & M32
    elif n == 'tail':
        pc = labels[o[0]] & M32
        free.add(6)
    else:
        raise KeyError(n)
    return x, pc, free


def execute(units, regs, cur, size):
    m = rv32.Machine(regs, pc=cur)
    for (c, usz, kind, mn, f) in units:
        if m.pc != c:
            break
        m.exec(usz, mn, f)
    return m


def judge(ctx, items, res, driver, case, allow_refusal=False):
    for c, r in res.items():
        ctx.count('assemblies')
        if r.status != 'ok':
            ctx.count('refused')
            if allow_refusal and r.status == 'refused':
                continue
            n = getattr(getattr(r.exc, 'line', None), 'number', None)
            it = items[n - 1] if isinstance(n, int) and 1 <= n <= len(items) else None
            name = it['name'] if it and it['k'] == 'pseudo' else 'program'
            ctx.violation('%s:%s:%s:%s' % (PROP, name, 'refused' if r.status == 'refused' else 'raw:' + r.etype, 'c' if c else 'u'),
                          'a program of documented pseudo-instructions is refused at %r: %s' % (it['text'][:50] if it else '?', kernel.errline(r.exc)[:150]),
                          driver, case, expected='accepted', observed=repr(r.exc)[:300])
            continue
        ctx.count('walked')
        w = r.walk
        if w.places is None:
            ctx.violation('%s:program:structure:%s' % (PROP, 'c' if c else 'u'), w.errors[0][2], driver, case, expected='one or two instructions per pseudo-instruction', observed=r.out[:64])
            continue
        for idx, it in enumerate(items):
            if it['k'] != 'pseudo':
                continue
            cur, size, units = w.places[idx]
            if any(u[2] == 'bad' for u in units):
                ctx.violation('%s:%s:illegal:%s' % (PROP, it['name'], 'c' if c else 'u'), '%r emits an illegal unit %s' % (it['text'], [u[3] for u in units]),
                              driver, case, expected='legal instructions', observed=r.out[cur:cur + size])
                continue
            for regs in states(it):
                ctx.count('executions')
                try:
                    m = execute(units, regs, cur, size)
                except rv32.Unsupported as e:
                    ctx.violation('%s:%s:unsupported:%s' % (PROP, it['name'], 'c' if c else 'u'), '%r expands to %s' % (it['text'], e), driver, case)
                    break
                ex, epc, free = expected(it, regs, cur, size, w.env)
                bad = [(q, hex(m.x[q]), hex(ex[q])) for q in range(32) if q not in free and m.x[q] != ex[q]]
                mem = [t for t in m.trace if t[0] in ('ld', 'st')]
                if bad or m.pc != epc or mem:
                    src = {q: hex(regs[q]) for q in sources(it)}
                    ctx.violation('%s:%s:effect:%s' % (PROP, it['name'], 'c' if c else 'u'),
                                  '%r at %#x with sources %s: pc=%#x (expected %#x), registers (reg, got, expected) %s, memory %s [compress=%s]'
                                  % (it['text'], cur, src, m.pc, epc, bad, mem, c), driver, case, expected=dict(pc=epc, regs=bad and [b[2] for b in bad]),
                                  observed=dict(pc=m.pc, bytes=r.out[cur:cur + size]))
                    break


def prog_case(ctx, case):
    asm = kernel.boot()
    items = case['items']
    res = progs.analyze(asm, items)
    judge(ctx, items, res, 'prog_case', case, case.get('allow_refusal', False))


def batch_task(ctx, task):
    asm = kernel.boot()
    for items in task['programs']:
        ctx.count('programs')
        ctx.count('pseudo_lines', sum(1 for it in items if it['k'] == 'pseudo'))
        res = progs.analyze(asm, items)
        judge(ctx, items, res, 'prog_case', dict(items=items, allow_refusal=task.get('allow_refusal', False)), task.get('allow_refusal', False))
        ctx.sample(dict(lines=[it['text'][:60] for it in items[:4]], n_items=len(items)), cap=1)
        for it in items:
            if it['k'] == 'pseudo':
                ctx.seen('pseudo', it['name'])


DRIVERS = {'prog_case': prog_case}


def wrap(lines):
    """A: / add / <lines> / B: / add   (backward and forward targets)"""
    return [L.label('A'), progs.I('add', rd=5, rs1=6, rs2=7)] + lines + [L.label('B'), progs.I('add', rd=5, rs1=6, rs2=7)]


def li_values(tier):
    vals = set()
    for up in (0, 0x7ffff, 0x40000, 0x12345 >> 1):
        for low in range(8192):
            vals.add((up << 13 | low) & M32)
    vals.update(v & M32 for v in range(-4200, 4200))
    for sp in (0, 1 << 32):
        vals.update((v + sp) & M32 for v in range(-2048 - 70, -2048 + 70))
    for hi in range(-33, 34):
        for low in (0, 1, -1, 31, 32, -32, -33, 0x7ff, -0x800, 0x800):
            vals.add(((hi << 12) + low) & M32)
    vals.update((0x7fffffff, 0x80000000, 0x800007ff, 0x80000800, 0x7ffff800, 0x7ffff7ff, 0xfffff7ff, 0xdeadbeef))
    if tier == 'thorough':
        from mc.props import c07
        for up in c07.carry_classes():
            for low in range(0, 8192):
                vals.add((up << 13 | low) & M32)
    return sorted(vals)


def li_spelling(v, i):
    s = v - (1 << 32) if v >> 31 else v
    return [v, s, hex(v)][i % 3] if False else (str(v), str(s), hex(v))[i % 3]


def programs(tier):
    out = []
    R = range(32)
    lines = []
    for n in ONE_SRC:
        lines += [L.pseudo(n, a, b) for a in R for b in R]
    for n in BR1:
        for t in ('A', 'B'):
            lines += [L.pseudo(n, a, t) for a in R]
    for n in BR2:
        for t in ('A', 'B'):
            lines += [L.pseudo(n, a, b, t) for a in R for b in R]
    for n in ('jr', 'jalr'):
        lines += [L.pseudo(n, a) for a in R]
    for t in ('A', 'B'):
        lines += [L.pseudo('j', t), L.pseudo('jal', t), L.pseudo('call', t), L.pseudo('tail', t)]
    lines += [L.pseudo('ret'), L.pseudo('nop'), L.pseudo('fence')]
    # numeric operands: the documentation equates `j offset` with `jal x0, offset`, `beqz rs, offset` with `beq rs, x0, offset`, ...
    for off in (8, -8, 0, 254, -256, 2046, -2048):
        lines += [L.pseudo(n, 8, off) for n in BR1] + [L.pseudo(n, 8, 9, off) for n in BR2] + [L.pseudo(n, off) for n in ('j', 'jal', 'call', 'tail')]
    for off in (4094, -4096, 0x7fffe, -0x80000):
        lines += [L.pseudo(n, 5, off) for n in BR1 if abs(off) <= 4096] + [L.pseudo(n, off) for n in ('j', 'jal', 'call', 'tail')]
    for off in (0x100000, -0x100002, 0x12345678):
        lines += [L.pseudo(n, off) for n in ('call', 'tail')]
    for ch in kernel.chunks(lines, 48):       # short batches: every target stays within c.beqz / c.j reach
        out.append(wrap(ch))
    # li: all 32 rd x structured values
    vals = li_values(tier)
    regs_full = list(R)
    regs_few = [0, 1, 2, 5, 8, 15, 31]
    li_lines = []
    for i, v in enumerate(vals):
        for rd in (regs_full if (i % 97 == 0 or tier == 'thorough' and i % 7 == 0) else regs_few):
            it = L.pseudo('li', rd, v)
            it['text'] = 'li x%d, %s' % (rd, li_spelling(v, i + rd))
            li_lines.append(it)
    for ch in kernel.chunks(li_lines, 256):
        out.append(list(ch))
    return out


def span_programs(tier):
    """every transfer pseudo at every distance class"""
    out = []
    wins = [range(236, 268), range(2030, 2064), range(4080, 4112)]
    far = [range(progs.MIB - 12, progs.MIB + 13), range(progs.MIB + 0x7f0, progs.MIB + 0x810, 2), [2 * progs.MIB, 3 * progs.MIB + 0x7fe]]
    refs_ = [(n, lambda t, n=n: L.pseudo(n, 8, t)) for n in BR1] + [(n, lambda t, n=n: L.pseudo(n, 8, 9, t)) for n in BR2] + \
            [(n, lambda t, n=n: L.pseudo(n, t)) for n in ('j', 'jal', 'call', 'tail')]
    for name, mk in refs_:
        for d in ('fwd', 'bwd'):
            gaps = [g for w in wins for g in w]
            if name in ('j', 'jal', 'call', 'tail'):
                gaps += [g for w in far for g in w]
            for g in gaps:
                for pre in ((), (progs.I('addi', rd=8, rs1=8, imm=1),)):
                    out.append((name, progs.span_program(mk, d, [], g, pre=pre)))
    return out


def run(tier, seed, t0):
    ps = programs(tier)
    tasks = [dict(programs=ch) for ch in kernel.chunks(ps, 4)]
    sp = span_programs(tier)
    for ch in kernel.chunks(sp, 12):
        # call / tail must reach any distance; conditional branches and j / jal may be refused beyond their documented reach
        for allow in (False, True):
            sel = [p for n, p in ch if (n not in ('call', 'tail')) == allow]
            if sel:
                tasks.append(dict(programs=sel, allow_refusal=allow))
    m = kernel.explore(batch_task, tasks)
    n = m.n
    cov = dict(states=n['executions'], transitions=n['assemblies'] + n['executions'], traces_validated_against_impl=n['executions'],
               evaluations=n['executions'], distinct_nontrivial=n['pseudo_lines'],
               rule='one state per (pseudo-instruction line, mode, pre-state of the register file) executed on the reference ISS; distinct_nontrivial = distinct '
                    'pseudo-instruction source lines (name x operands x distance)',
               exhaustive=True, pseudo_instructions=sorted(m.sets['pseudo']), programs=n['programs'], refused=n['refused'],
               bound='all 27 pseudo-instructions x all register choices x V (V x V) pre-states x both modes; li: %d values (all low-13-bit patterns x 4 carry classes, +-4200, '
                     'short/long thresholds in both spellings, c.lui edges) x 7 rd (all 32 rd on every 97th value); transfers at gaps 236..267, 2030..2063, 4080..4111, '
                     '1 MiB +-12, 1 MiB + 0x7f0..0x80e, 2 MiB, 3 MiB' % len(li_values(tier)))
    if len(m.sets['pseudo']) != 27:
        raise RuntimeError('vacuous: only %d pseudo-instructions explored' % len(m.sets['pseudo']))
    return kernel.finish(PROP, tier, seed, t0, m, cov, [
        'reference ISS mc/ref/rv32.py; documented effects from docs/instruction_reference.rst',
        '"arbitrary register contents" = the value alphabet V on the source registers, distinct sentinels elsewhere; the full 2^32 li values are covered at the '
        'relocate_hi/lo level by C07, here on the structured set',
        'conditional pseudo-branches and j/jal may be refused beyond the reach of their base instruction; call/tail must reach every distance'])
