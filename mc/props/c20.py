"""C20 - with -c every eligible instruction is compressed and nothing grows (DESIGN.md section 3, C20).

Eligibility is *derived*, not hand-written: E = { expand16(h) : h legal non-hint RV32C halfword } built from the
reference model.  Product explorer over the operand-edge instruction space (18 base mnemonics x register classes x
immediates on both sides of every RVC operand-set edge, complete 12-bit ranges thorough) and the literal
pseudo-instructions (li / mv / ret / jr / nop ...): any 32-bit unit left in the -c output whose word is in E and
whose source line does not depend on a label is a violation.  Growth: on every program of the S1 tree and the span
programs accepted in both modes the compressed output is not longer and no label lies further out.
"""
import sys

from mc import kernel, progs, layoutrun
from mc.ref import layout as L
from mc.ref import rv32

PROP = 'C20'
RULE = ('states = distinct programs (S1 tree, span programs, batches of 256 literal instructions of the operand-edge space and of literal pseudo-instructions), each '
        'assembled in both modes; non-trivial = programs containing at least one instruction whose uncompressed word is in the derived eligibility relation E')


def label_free(it):
    return not L.refs(it)


def judge(ctx, items, res, driver, case):
    u, c = res[False], res[True]
    if u.status != 'ok' or c.status != 'ok':
        return
    wu, wc = u.walk, c.walk
    if wc.places is None or wu.places is None:
        return
    E = rv32.eligible_words()
    elig = 0
    for idx, it in enumerate(items):
        if it['k'] not in ('inst', 'li', 'call', 'tail', 'pseudo') or not label_free(it):
            continue
        for (cur, size, kind, mn, f) in wc.places[idx][2]:
            if kind != '32':
                if kind == '16':
                    elig += 1
                continue
            w = int.from_bytes(c.out[cur:cur + 4], 'little')
            if w in E:
                elig += 1
                ctx.violation('%s:%s:%s:not-compressed' % (PROP, progs.head(it), mn), '%r: %s (%#010x) stays 32 bits wide with -c although it is the expansion of %s'
                              % (it['text'][:50], mn, w, ' / '.join(rv32.text16(*rv32.decode16(h)) for h in E[w][:2])), driver, case,
                              expected='16-bit encoding', observed=c.out[cur:cur + 4])
    ctx.count('eligible_units', elig)
    dec = ':decreasing-expression' if any(progs.spec_class(it).startswith('rsub') for it in items) else ''
    consts = {i['name'] for i in items if i['k'] == 'const' and 'name' in i}
    if not dec and any(consts & set(L.refs(it)) for it in items):
        dec = ':const-target'         # a transfer / %offset to a CONSTANT: the distance to an absolute address grows when the code in front shrinks
    if len(c.out) > len(u.out):
        ctx.violation('%s:program:grew%s' % (PROP, dec), 'compressed output is %d bytes, uncompressed %d' % (len(c.out), len(u.out)), driver, case,
                      expected='<= %d' % len(u.out), observed=len(c.out))
    for name, off in wu.labels.items():
        if wc.labels.get(name, 0) > off:
            ctx.violation('%s:label:grew%s' % (PROP, dec), 'label %s at %#x with -c, %#x without' % (name, wc.labels[name], off), driver, case, expected='<= %d' % off, observed=wc.labels[name])
    if wu.labels != u.labels or wc.labels != c.labels:
        ctx.count('other:labels')


def nontrivial(items, res):
    c = res[True]
    return c.status == 'ok' and res[False].status == 'ok' and len(c.out) < len(res[False].out)


def alphabet(tier):
    from mc.props import c04
    # + odd-sized data (the pessimistic position and the real address then differ in parity behind an align)
    return c04.alphabet(tier) + progs.instantiate(progs.pick(progs.NEGARITH, 'liNeg') + progs.pick(progs.DATA, 'db', 'str') +
                                                   (progs.pick(progs.NEGARITH, 'liNeg9') if tier == 'thorough' else []), ['A'])


def depth(tier):
    return 4


DEEP = 5       # thorough: additionally all closed programs of <= 5 lines over the quick alphabet


def pseudo_literals(tier):
    out = []
    regs = progs.REG9
    livals = sorted(set(range(-40, 41)) | set(range(-2060, -2030)) | set(range(2030, 2060)) | {0x1000, 0x1001, 0x3000, 0x3005, 0x1f000, 0x20000, 0x1ffff, 0xfffe0000, 0xfffe0001,
                    0xfffdf000, 0xffffffff, 0xfffff000, 0x7ffff000, 0x80000000, 0x12345678, 0x12345000, 0x1f01f, 0x1f020, 0x1f7ff, 0x1f800})
    if tier == 'thorough':
        livals = sorted(set(livals) | set(range(-4200, 4200)) | {(h << 12) + l for h in (1, 31, 32, 33, 0xfffe0, 0xfffdf) for l in range(-34, 35)})
    for rd in regs:
        for v in livals:
            out.append(L.li(rd, v))
        for rs in regs:
            out.append(progs.I('addi', 'mv x%d, x%d' % (rd, rs), rd=rd, rs1=rs, imm=0))
            out.append(progs.I('sub', 'neg x%d, x%d' % (rd, rs), rd=rd, rs1=0, rs2=rs))
            out.append(progs.I('xori', 'not x%d, x%d' % (rd, rs), rd=rd, rs1=rs, imm=-1))
            out.append(progs.I('sltiu', 'seqz x%d, x%d' % (rd, rs), rd=rd, rs1=rs, imm=1))
        out.append(progs.I('jalr', 'jr x%d' % rd, rd=0, rs1=rd, imm=0))
        out.append(progs.I('jalr', 'jalr x%d' % rd, rd=1, rs1=rd, imm=0))
    out.append(progs.I('jalr', 'ret', rd=0, rs1=1, imm=0))
    out.append(progs.I('addi', 'nop', rd=0, rs1=0, imm=0))
    # transfers with a NUMERIC (literal, pc-relative) offset: near forms, and far call / tail whose second instruction is jalr rd, 0(rs) when the low part is zero
    for off in (0, 2, 4, -2, 254, 256, -256, -258, 2046, 2048, -2048, -2050, 0xffffe, -0x100000, 0x100000, 0x200000, -0x200000, 0x7ffff000, 0x100004, 0x1007fc, 0x100800):
        for name in ('call', 'tail') + (('j', 'jal') if -0x100000 <= off < 0x100000 else ()):
            out.append(L.pseudo(name, off))
        if -4096 <= off < 4096:
            for name in ('beqz', 'bnez', 'bgez'):
                out.append(L.pseudo(name, 8, off))
    return out


def full_ranges():
    out = []
    for rd, rs1 in ((8, 8), (8, 2), (2, 2), (1, 1), (1, 0), (15, 9)):
        for imm in range(-2048, 2048):
            out.append(progs.I('addi', rd=rd, rs1=rs1, imm=imm))
            out.append(progs.I('lw', rd=rd, rs1=rs1, imm=imm))
            out.append(progs.I('sw', rs1=rs1, rs2=rd, imm=imm))
            out.append(progs.I('andi', rd=rd, rs1=rs1, imm=imm))
    for rd in range(32):
        for rs1 in range(32):
            for rs2 in range(32):
                for mn in ('add', 'sub', 'and', 'or', 'xor'):
                    out.append(progs.I(mn, rd=rd, rs1=rs1, rs2=rs2))
            for mn in ('slli', 'srli', 'srai'):
                for sh in (0, 1, 31):
                    out.append(progs.I(mn, rd=rd, rs1=rs1, shamt=sh))
            for imm in (-33, -32, -1, 0, 1, 4, 16, 31, 32, 124, 128, 252, 256, 496, 512, 1020, 1024):
                out.append(progs.I('addi', rd=rd, rs1=rs1, imm=imm))
                if imm >= 0:
                    out.append(progs.I('lw', rd=rd, rs1=rs1, imm=imm))
                    out.append(progs.I('sw', rs1=rs1, rs2=rd, imm=imm))
    return out


PRELUDE = [L.const('R8', 'x8'), L.const('R9', 's1'), L.const('RSP', 'sp'), L.const('RA', 'ra'), L.const('K4', '4'), L.const('K16', '16'), L.const('S3', '3'), L.const('KM1', '-1')]


def symbolic():
    """eligible instructions and pseudo-instructions whose operands are written as constants / register aliases (literal, not label-dependent)"""
    I = progs.I
    out = [
        I('addi', 'mv R8, R9', rd=8, rs1=9, imm=0), I('addi', 'mv R8, x9', rd=8, rs1=9, imm=0), I('addi', 'mv x8, R9', rd=8, rs1=9, imm=0),
        I('jalr', 'jr R8', rd=0, rs1=8, imm=0), I('jalr', 'jalr R9', rd=1, rs1=9, imm=0), I('jalr', 'jalr x0, RA, 0', rd=0, rs1=1, imm=0),
        I('addi', 'addi R8, R8, K4', rd=8, rs1=8, imm=4), I('addi', 'addi R8, x0, KM1', rd=8, rs1=0, imm=-1), I('addi', 'addi RSP, RSP, K16', rd=2, rs1=2, imm=16),
        I('addi', 'addi R8, RSP, K4', rd=8, rs1=2, imm=4), I('addi', 'addi RSP, RSP, K16 * 2', rd=2, rs1=2, imm=32), I('andi', 'andi R8, R8, KM1', rd=8, rs1=8, imm=-1),
        I('lw', 'lw R8, R9, K4', rd=8, rs1=9, imm=4), I('lw', 'lw R8, K4(R9)', rd=8, rs1=9, imm=4), I('lw', 'lw RA, K16(RSP)', rd=1, rs1=2, imm=16),
        I('sw', 'sw R9, R8, K4', rs1=9, rs2=8, imm=4), I('sw', 'sw R8, K4(R9)', rs1=9, rs2=8, imm=4), I('sw', 'sw RA, K16(RSP)', rs1=2, rs2=1, imm=16),
        I('add', 'add R8, R8, R9', rd=8, rs1=8, rs2=9), I('add', 'add R8, x0, R9', rd=8, rs1=0, rs2=9), I('sub', 'sub R8, R8, R9', rd=8, rs1=8, rs2=9),
        I('and', 'and R9, R9, R8', rd=9, rs1=9, rs2=8), I('xor', 'xor R8, R8, x9', rd=8, rs1=8, rs2=9), I('or', 'or x8, R8, R9', rd=8, rs1=8, rs2=9),
        I('slli', 'slli R8, R8, S3', rd=8, rs1=8, shamt=3), I('srli', 'srli R8, R8, S3', rd=8, rs1=8, shamt=3), I('srai', 'srai R9, R9, 3', rd=9, rs1=9, shamt=3),
        I('slli', 'slli RA, RA, S3', rd=1, rs1=1, shamt=3), I('lui', 'lui R8, K4', rd=8, imm=4), I('lui', 'lui RA, K16', rd=1, imm=16),
        # (a NAME as branch / jump target is an absolute position, i.e. a layout-dependent operand: exempt like labels, so no `beq R8, x0, K16` here)
        I('beq', 'beq R8, x0, 16', rs1=8, rs2=0, imm=16), I('bne', 'bne R9, zero, 4', rs1=9, rs2=0, imm=4), I('jal', 'jal RA, 16', rd=1, imm=16),
        I('sub', 'neg R8, R9', rd=8, rs1=0, rs2=9),
        # a displacement written as an EXPRESSION of constants is the offset itself (layout-independent, unlike a bare name)
        I('jal', 'jal x0, K4 * 2', rd=0, imm=8), I('jal', 'jal RA, K4 + K4', rd=1, imm=8), I('beq', 'beq R8, x0, K16 + K4', rs1=8, rs2=0, imm=20),
        I('bne', 'bne R9, zero, (K16)', rs1=9, rs2=0, imm=16), I('jal', 'jal x0, %lo(K16)', rd=0, imm=16), I('beq', 'beq R8, x0, KM1 * 4', rs1=8, rs2=0, imm=-4),
        I('jal', 'jal x0, 0 - K16', rd=0, imm=-16),
    ]
    for v, t in ((5, 'K4 + 1'), (4, 'K4'), (16, 'K16'), (-1, 'KM1'), (0x4000, 'K4 << 12'), (0x4004, '(K4 << 12) + K4')):
        for rd, rt in ((8, 'R8'), (1, 'RA'), (9, 'x9')):
            it = L.li(rd, v)
            it['text'] = 'li %s, %s' % (rt, t)
            out.append(it)
    return out


_CACHE = {}


def space(tier):
    if tier not in _CACHE:
        s = symbolic() * 1 + progs.edge_instructions(tier) + pseudo_literals(tier)
        if tier == 'thorough':
            s += full_ranges()
        _CACHE[tier] = s
    return _CACHE[tier]


def s2_tasks(tier):
    from mc.props import c03
    ts = [dict(t, src='c03') for t in c03.s2_tasks(tier)] if tier == 'thorough' else []
    n = (len(space(tier)) + 255) // 256
    ts += [dict(src='edge', lo=i * 256, hi=(i + 1) * 256) for i in range(n)]
    return ts


def s2_programs(task):
    from mc.props import c03
    if task['src'] == 'c03':
        yield from c03.s2_programs(task)
    else:
        yield PRELUDE + space(task['tier'])[task['lo']:task['hi']]


def multifile_case(ctx, case):
    """the same literal lines spread over an include tree: eligibility must not depend on the file / line number a line sits in"""
    import os
    from mc import trees
    asm = kernel.boot()
    base = trees.fresh_dir(os.path.join(kernel.scratch('_c20'), 'mf'))
    sp = space('quick')
    comp = [it for it in sp if it['k'] in ('inst', 'li') and it['text'].split()[0] in ('li', 'mv', 'jr', 'ret', 'nop', 'addi', 'lw', 'sw')][case['lo']:case['lo'] + case['n']]
    plain = [progs.I('lw', rd=5, rs1=6, imm=0), progs.I('sw', rs1=6, rs2=5, imm=4), progs.I('add', rd=5, rs1=6, rs2=7), progs.I('mul', rd=8, rs1=8, rs2=9), progs.I('lui', rd=5, imm=0x12345)]
    main_items = [plain[i % len(plain)] for i in range(case['n'])]
    shapes = {'lib-first': (['include lib.asm'] + [i['text'] for i in main_items], comp + main_items),
              'lib-last': ([i['text'] for i in main_items] + ['include lib.asm'], main_items + comp),
              'lib-middle': ([i['text'] for i in main_items[:2]] + ['include lib.asm'] + [i['text'] for i in main_items[2:]], main_items[:2] + comp + main_items[2:])}
    lines, items = shapes[case['shape']]
    with open(os.path.join(base, 'lib.asm'), 'w') as f:
        f.write('\n'.join(i['text'] for i in comp) + '\n')
    with open(os.path.join(base, 'main.asm'), 'w') as f:
        f.write('\n'.join(lines) + '\n')
    res = {}
    for c in (False, True):
        r = progs.assemble(asm, os.path.join(base, 'main.asm'), c)
        if r.status == 'ok':
            r.walk = L.walk(items, r.out, c)
        res[c] = r
    ctx.count('extra_states')
    ctx.count('extra_transitions', 2)
    if all(r.status == 'ok' for r in res.values()):
        ctx.count('extra_traces', 2)
        ctx.count('extra_nontrivial')
    judge(ctx, items, res, 'multifile_case', case)


def multifile_task(ctx, cases):
    for c in cases:
        multifile_case(ctx, c)
    ctx.sample(dict(driver='multifile', case=cases[0]), cap=1)


def extra(tier, merged):
    n = len([it for it in space('quick') if it['k'] in ('inst', 'li') and it['text'].split()[0] in ('li', 'mv', 'jr', 'ret', 'nop', 'addi', 'lw', 'sw')])
    step = 400 if tier == 'quick' else 60
    cases = [dict(lo=lo, n=k, shape=sh) for lo in range(0, n, step) for k in (1, 3, 8) for sh in ('lib-first', 'lib-last', 'lib-middle')]
    kernel.explore(multifile_task, list(kernel.chunks(cases, 12)), merged=merged)


def describe(tier):
    return ('eligibility: %d literal instructions / pseudo-instructions in batches of 256 against the derived relation E (%d words), a sub-set again spread over an include tree (same line numbers in two files); growth: all closed programs of <= %d lines '
            'over the alphabet%s' % (len(space(tier)), len(rv32.eligible_words()), depth(tier), ' and the span programs of C03' if tier == 'thorough' else ''))


DRIVERS = {'prog_case': layoutrun.prog_case(__name__), 'multifile_case': multifile_case}


def run(tier, seed, t0):
    return layoutrun.run(sys.modules[__name__], tier, seed, t0, [
        'E is derived from the reference RVC decoder/expander (mc/ref/rv32.py); commuted operand forms (add x1, x2, x1) are not expansions of an RVC instruction and are not demanded',
        'label-dependent instructions are exempt, as the property states'])
