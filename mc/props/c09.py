"""C09 - output is the in-order concatenation of items; align pads minimally with zeros (DESIGN.md section 3, C09).

History explorer over every item *kind* (instructions, explicit c.*, short/long li, every data directive, pack,
include_bytes, labels, constants, aligns incl. odd ones) up to depth d, plus the complete alignment grid
N x residue x shrinking item in front x second align, compression off and on.  Oracle: the reference walker must
consume the whole output item by item (sizes from the bytes / the documentation), data bytes must be the reference
bytes, padding minimal and zero.
"""
import sys

from mc import kernel, progs, layoutrun
from mc.ref import layout as L

PROP = 'C09'
OWNED = {'structure', 'pad', 'size', 'data', 'inst', 'illegal'}
RULE = ('states = distinct item sequences (S1 history tree over all item kinds) and alignment-grid programs, each assembled with compression off and on and walked; '
        'non-trivial = accepted programs containing an align whose padding differs from its pessimistic size, or any variable-size item')

EXTRA = [
    progs.sym('dd', lambda l: L.data('dd 0x1122334455667788', bytes.fromhex('8877665544332211'))),
    progs.sym('shorts2', lambda l: L.data('shorts 0x1234 0x5678', bytes.fromhex('34127856'))),
    progs.sym('packB', lambda l: L.data('pack <B 7', b'\x07')),
    progs.sym('packH', lambda l: L.data('pack >H 0x1234', b'\x12\x34')),
    progs.sym('incb', lambda l: L.data('include_bytes blob3.bin', bytes([0xa0, 0xa1, 0xa2]))),
    progs.sym('al3', lambda l: L.align(3)),
    progs.sym('const', lambda l: L.const('K', '5 + 1')),
]


def judge(ctx, items, res, driver, case):
    for c, r in res.items():
        if r.status != 'ok':
            continue
        for cat, idx, msg in r.walk.errors:
            it = items[idx] if idx >= 0 else None
            if cat in OWNED:
                key = '%s:%s:%s:%s' % (PROP, progs.head(it) if it else 'program', cat, 'c' if c else 'u')
                ctx.violation(key, msg + ' [compress=%s]' % c, driver, case, expected='in-order concatenation of the items', observed=dict(output=r.out[:64], size=len(r.out)))
            else:
                ctx.count('other:' + cat)


def nontrivial(items, res):
    return any(it['k'] in ('align', 'li', 'call', 'tail') for it in items) and any(r.status == 'ok' for r in res.values())


def alphabet(tier):
    syms = (progs.pick(progs.CODE_C, 'addi8') + progs.pick(progs.CODE_N, 'add567', 'c.addi') + progs.pick(progs.VAR, 'li1', 'liL') +
            progs.pick(progs.DATA, 'db', 'dh', 'bytes3', 'str') + progs.pick(EXTRA, 'dd', 'packB', 'incb', 'al3', 'const') + progs.pick(progs.ALIGN, 'al4') + [progs.DEF])
    if tier == 'thorough':
        syms += progs.pick(progs.DATA, 'dw') + progs.pick(EXTRA, 'shorts2', 'packH') + progs.pick(progs.ALIGN, 'al2')
    return progs.instantiate(syms, ['A'])


def depth(tier):
    return 4


DEEP = 5       # thorough: additionally all closed programs of <= 5 lines over the quick alphabet


GRID_N = list(range(1, 18)) + [32, 64, 100, 256, 4096]
FRONTS = {'none': [], 'addi8': [progs.I('addi', rd=8, rs1=8, imm=1)], 'li1': [L.li(9, 1)]}


def s2_tasks(tier):
    ts = [dict(n=n, fronts=list(FRONTS), second=[None, 1, 2, 3, 4, 8]) for n in GRID_N]
    ts.append(dict(n=1 << 20, fronts=['none', 'addi8'], second=[None, 4], rmax=3))
    # data-size family: every data item kind (alone and in pairs) in front of every alignment
    for i in range(len(progs.DATA_ALL)):
        ts.append(dict(kind='datasize', i=i))
    return ts


def s2_programs(task):
    if task.get('kind') == 'datasize':
        d = progs.DATA_ALL[task['i']][1](None)
        for d2 in [None] + [x[1](None) for x in progs.DATA_ALL]:
            for n in (2, 3, 4, 8, 16):
                for fr in ('none', 'addi8'):
                    yield list(FRONTS[fr]) + [d] + ([d2] if d2 else []) + [L.align(n), L.label('A'), progs.I('add', rd=5, rs1=6, rs2=7)]
        return
    n = task['n']
    for r in range(min(n, task.get('rmax', 32))):
        for fr in task['fronts']:
            for m2 in task['second']:
                items = list(FRONTS[fr]) + ([L.gap(r)] if r else []) + [L.align(n)] + ([L.align(m2)] if m2 else []) + [L.label('A'), progs.I('add', rd=5, rs1=6, rs2=7)]
                yield items


def describe(tier):
    return ('S1: all item sequences of <= %d lines over the alphabet (every item kind); grid: N in {1..17, 32, 64, 100, 256, 4096, 2^20} x every residue r < min(N, 32) '
            'x {nothing, compressible instruction, short li} in front x second align M in {none, 1, 2, 3, 4, 8}; data-size family: %d data item kinds alone and in all pairs x align 2/3/4/8/16 x 2 fronts' % (depth(tier), len(progs.DATA_ALL)))


NEEDS_FILES = True      # include_bytes items: every worker works inside its own scratch directory
DRIVERS = {'prog_case': layoutrun.prog_case(__name__)}


def run(tier, seed, t0):
    return layoutrun.run(sys.modules[__name__], tier, seed, t0, [
        'reference walker mc/ref/layout.py (instruction length from the ISA length bits, data sizes from docs/assembly_language.rst)',
        'instruction alignment is not demanded (the assembler documents that misaligned code is the programmer\'s business)'])
