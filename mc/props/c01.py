"""C01 - 32-bit instructions encode exactly as the RISC-V specification defines (DESIGN.md section 3, C01).

Product explorer over (mnemonic x operand tuple): every point is executed on the real encoder
(asm.INSTRUCTIONS[m]) or through the text front end (asm.assemble), and the emitted word is decoded by the
reference decoder; decode(encode(t)) == t on every t also gives injectivity.
"""
import itertools
import struct

from mc import isa, kernel, encdrv
from mc.ref import rv32

PROP = 'C01'
R10 = [0, 1, 2, 5, 8, 10, 15, 16, 21, 31]
TUPLES3 = [(1, 2, 3), (31, 30, 29), (10, 0, 21)]


def boundary(kind):
    lo, hi, step, zero, extra = isa.KINDS[kind]
    c = {lo, lo + step, lo + 2 * step, -2 * step, -step, 0, step, 2 * step, hi - step, hi}
    k = 0
    while (1 << k) <= max(abs(lo), abs(hi)) * 2:
        for b in (1 << k, -(1 << k)):
            c.update((b, b - step, b + step))
        k += 1
    for pat in (0x55555555, 0xaaaaaaaa, 0x33333333, 0x0f0f0f0f):
        for s in (1, -1):
            v = s * (pat & (max(abs(lo), abs(hi)) * 2 - 1))
            c.add(v - v % step)
    for a, b in extra:
        c.update((a, a + 1, b - 1, b, (a + b) // 2))
    return sorted(v for v in c if isa.legal(kind, v))


def split(mn):
    sig = isa.M32[mn]
    regs = [i for i, (r, k) in enumerate(sig) if k == 'reg']
    imms = [i for i, (r, k) in enumerate(sig) if k not in ('reg', 'bit')]
    bits = [i for i, (r, k) in enumerate(sig) if k == 'bit']
    return sig, regs, imms, bits


def call(asm, mn, ops):
    sig = isa.ALL[mn]
    pos = [v for (r, k), v in zip(sig, ops) if r not in isa.KWARGS]
    kw = {r: v for (r, k), v in zip(sig, ops) if r in isa.KWARGS}
    return asm.INSTRUCTIONS[mn](*pos, **kw)


def check_word(ctx, mn, ops, w, driver, case):
    d = rv32.decode32(w) if isinstance(w, int) and 0 <= w <= 0xffffffff else None
    exp = (mn, isa.expected_fields(mn, ops))
    if d != exp:
        ctx.violation('%s:%s:wrong-word' % (PROP, mn), '%s %s encodes to %s which decodes to %r' % (mn, list(ops), hex(w) if isinstance(w, int) else w, d),
                      driver, case, expected=exp, observed=[w, d])
        return False
    return True


def enc_point(ctx, case):
    """one operand tuple through the real encoder"""
    asm = kernel.boot()
    mn, ops = case['mn'], tuple(case['ops'])
    ctx.count('enc_calls')
    try:
        w = call(asm, mn, ops)
    except ValueError as e:
        ctx.violation('%s:%s:refused-legal' % (PROP, mn), '%s %s refused: %s' % (mn, list(ops), e), 'enc_point', case,
                      expected='accepted', observed=repr(e))
        return
    except Exception as e:
        ctx.violation('%s:%s:raw-exception:%s' % (PROP, mn, type(e).__name__), '%s %s raised %r' % (mn, list(ops), e),
                      'enc_point', case, expected='accepted', observed=repr(e))
        return
    check_word(ctx, mn, ops, w, 'enc_point', case)


def enc_task(ctx, task):
    """task = dict(mn, subs=[list of axes lists], skip=name) : walks each sub-product, de-duplicating by predicate"""
    asm = kernel.boot()
    encdrv.warm(asm)
    mn = task['mn']
    f = asm.INSTRUCTIONS[mn]
    sig = isa.M32[mn]
    npos = sum(1 for r, k in sig if r not in isa.KWARGS)
    kwn = [r for r, k in sig if r in isa.KWARGS]
    kinds = [k for r, k in sig]
    fixed = isa.FIXED32.get(mn, {})
    roles = [r for r, k in sig]
    dec = rv32.decode32
    seen_preds = []
    n = 0
    for axes in task['subs']:
        sets = [set(a) for a in axes]
        for ops in itertools.product(*axes):
            if any(all(o in s for o, s in zip(ops, ss)) for ss in seen_preds):
                continue
            n += 1
            try:
                if kwn:
                    w = f(*ops[:npos], **dict(zip(kwn, ops[npos:])))
                else:
                    w = f(*ops)
            except Exception:
                enc_point(ctx, dict(mn=mn, ops=list(ops)))
                continue
            d = dec(w)
            ok = d is not None and d[0] == mn
            if ok:
                fld = d[1]
                for r, k, v in zip(roles, kinds, ops):
                    if fld.get(r) != (v if k not in ('u20', 'csr') else isa.canon(k, v)):
                        ok = False
                        break
                if ok and (len(fld) != len(roles) + len(fixed) or any(fld.get(a) != b for a, b in fixed.items())):
                    ok = False
            if not ok:
                check_word(ctx, mn, ops, w, 'enc_point', dict(mn=mn, ops=list(ops)))
        seen_preds.append(sets)
    ctx.count('enc_calls', n)
    ctx.count('points', n)
    ctx.seen('mnemonics', mn)
    if task.get('sample'):
        ops = tuple(a[len(a) // 2] for a in task['subs'][0])
        ctx.sample(dict(driver='encoder', mn=mn, ops=list(ops), word=hex(call(asm, mn, ops))))


def text_lines(ctx, case):
    """case = dict(lines=[{line, mn, ops}], compress=False): assemble as one program, one word per line"""
    asm = kernel.boot()
    lines = case['lines']
    src = '\n'.join(l['line'] for l in lines) + '\n'
    ctx.count('programs')
    ctx.count('text_lines', len(lines))
    try:
        out = bytes(asm.assemble(src))
    except Exception as e:
        if len(lines) == 1:
            l = lines[0]
            kind = 'refused-legal' if isinstance(e, asm.AssemblerError) else 'raw-exception:' + type(e).__name__
            ctx.violation('%s:%s:text-%s' % (PROP, l['mn'], kind), 'line %r refused: %s' % (l['line'], kernel.errline(e)),
                          'text_lines', dict(lines=[l]), expected='accepted', observed=repr(e)[:300])
            return
        for l in lines:
            text_lines(ctx, dict(lines=[l]))
        ctx.count('programs', -len(lines))
        ctx.count('text_lines', -len(lines))
        return
    if len(out) != 4 * len(lines):
        if len(lines) == 1:
            l = lines[0]
            ctx.violation('%s:%s:text-size' % (PROP, l['mn']), 'line %r emitted %d bytes' % (l['line'], len(out)), 'text_lines',
                          dict(lines=[l]), expected=4, observed=out)
            return
        for l in lines:
            text_lines(ctx, dict(lines=[l]))
        return
    words = struct.unpack('<%dI' % len(lines), out)
    for l, w in zip(lines, words):
        exp = (l['mn'], isa.expected_fields(l['mn'], l['ops']))
        if rv32.decode32(w) != exp:
            ctx.violation('%s:%s:text-wrong-word' % (PROP, l['mn']), 'line %r assembles to %#010x = %r' % (l['line'], w, rv32.decode32(w)),
                          'text_lines', dict(lines=[l]), expected=exp, observed=[w, rv32.decode32(w)])
    ctx.sample(dict(driver='text', line=lines[len(lines) // 2]['line'], word=hex(words[len(lines) // 2])), cap=1)


DRIVERS = {'enc_point': enc_point, 'text_lines': text_lines, 'enc_task': enc_task}


def enc_tasks(tier):
    tasks = []
    for mn in isa.M32:
        sig, regs, imms, bits = split(mn)
        full = [isa.values(k) for r, k in sig]
        if tier == 'thorough':
            # the complete product, sliced on the first operand
            if not sig:
                tasks.append(dict(mn=mn, subs=[[]], sample=True))
                continue
            for i, v in enumerate(full[0]):
                tasks.append(dict(mn=mn, subs=[[[v]] + full[1:]], sample=(i == 0)))
            continue
        subs = []
        if not sig:
            subs.append([])
        elif not imms:
            subs.append(full)                       # pure register / fence-less forms: complete in both tiers
        else:
            # Q1: all immediates x 3 register tuples
            for t in TUPLES3:
                axes = list(full)
                for j, ri in enumerate(regs):
                    axes[ri] = [t[j % 3]]
                subs.append(axes)
            # Q2: the 10-register set on every field jointly x boundary immediates
            axes = list(full)
            for ri in regs:
                axes[ri] = R10
            for ii in imms:
                axes[ii] = boundary(sig[ii][1])
            subs.append(axes)
            # Q3: all register tuples x 3 immediates
            axes = list(full)
            for ii in imms:
                b = boundary(sig[ii][1])
                axes[ii] = sorted({b[0], b[-1], b[len(b) // 3]})
            subs.append(axes)
        if mn in ('lui', 'auipc', 'jal'):
            # split the big Q1 products per register tuple so that they spread over the pool
            for s in subs:
                tasks.append(dict(mn=mn, subs=[s], sample=(s is subs[0])))
        else:
            tasks.append(dict(mn=mn, subs=subs, sample=True))
    return tasks


def text_tasks(tier):
    pts = []

    def add(mn, ops, regsp=1, intsp=0, offs=False, line=None):
        pts.append(dict(line=line or isa.render(mn, ops, regsp, intsp, offs), mn=mn, ops=list(ops)))

    for mn in isa.M32:
        sig, regs, imms, bits = split(mn)
        if not sig:
            add(mn, ())
            continue
        base = []
        for r, k in sig:
            b = isa.values(k)
            base.append(b[len(b) * 2 // 3] if k != 'reg' else 9)
        # T1: every register field x all 32 registers x every spelling
        for ri in regs:
            for r in range(32):
                for sp in range(len(isa.reg_spellings(r))):
                    ops = list(base)
                    ops[ri] = r
                    if sig[ri][0] == 'uimm':
                        add(mn, ops, 1, sp % 3)
                    else:
                        add(mn, ops, sp if sp < 4 else 4, 0)
        # T2: the immediate range, rotating through the integer spellings
        for ii in imms:
            kind = sig[ii][1]
            vals = isa.values(kind)
            if len(vals) > 5000 and tier == 'quick':
                b = set(boundary(kind))
                lo, hi, step = isa.KINDS[kind][:3]
                b.update(range(lo, lo + 4096 * step, step))
                b.update(range(-2048 * step, 2048 * step, step))
                b.update(range(hi - 4096 * step, hi + 1, step))
                b.update(v for v in range(lo, hi + 1, 257 * step))
                vals = sorted(v for v in b if isa.legal(kind, v))
            for n, v in enumerate(vals):
                ops = list(base)
                ops[ii] = v
                add(mn, ops, 1, n % 3)
        # T3: imm(reg) syntax
        if mn in isa.BASE_OFFSET:
            for v in boundary(sig[2][1]):
                for a in R10:
                    for b in (0, 7, 31):
                        add(mn, (a, b, v), 2, 0, True)
                        add(mn, (b, a, v), 1, 1, True)
        # T4: aq/rl omitted, and all explicit combinations
        if bits:
            ops = list(base)
            for aq in (0, 1):
                for rl in (0, 1):
                    ops[-2:] = [aq, rl]
                    for sp in range(3):
                        add(mn, ops, 2, sp)
            ops[-2:] = [0, 0]
            add(mn, ops, line=isa.render(mn, ops).rsplit(',', 2)[0])
    for s in range(16):
        for p in range(16):
            for sp in range(3):
                add('fence', (s, p), 1, sp)
    return [dict(lines=c) for c in kernel.chunks(pts, 1024)]


def run(tier, seed, t0):
    m = kernel.explore(enc_task, enc_tasks(tier))
    m = kernel.explore(text_lines, text_tasks(tier), merged=m)
    n = m.n
    cov = dict(
        states=n['points'] + n['text_lines'],
        transitions=n['enc_calls'] + n['text_lines'],
        traces_validated_against_impl=n['points'] + n['text_lines'],
        evaluations=n['points'] + n['text_lines'],
        distinct_nontrivial=n['points'],
        rule='encoder product: distinct (mnemonic, operand tuple) points, de-duplicated by construction; every point is non-trivial '
             '(a real encoder call decoded by the reference decoder). text: one source line per point, 1024 lines per assembled program',
        exhaustive=(tier == 'thorough'),
        bound=('complete product of all 66 mnemonics x all registers x complete immediate range' if tier == 'thorough' else
               'sub-product: all immediates x 3 register tuples + 10-register set jointly x boundary/walking-bit immediates + all register tuples x 3 immediates; '
               'register-only and fence formats complete'),
        mnemonics=len(m.sets['mnemonics']), encoder_points=n['points'], text_lines=n['text_lines'], programs=n['programs'],
    )
    return kernel.finish(PROP, tier, seed, t0, m, cov, [
        'reference decoder mc/ref/rv32.py as anchored by mc/selftest.py (manual tables, golden vectors, llvm-mc-14 both directions)',
        'operand roles and order as documented in docs/instruction_reference.rst',
        'CSR operands compared modulo 4096, U-type operands modulo 2^20 (documented double spelling)'])
