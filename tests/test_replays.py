"""Plain pytest replay of recorded violations (no explorer involved):

    cd /verif && /venv/bin/python -m pytest -q tests/test_replays.py

Every file under /verif/replays/<property>/ (written by a check when it reports a VIOLATION) and every
/verif/seeded/<id>/replay*.json is re-executed through the single-case driver it names; the test FAILS while the
current /repo tree still violates the property on that input and passes once the behaviour is repaired.
"""
import glob
import importlib
import json
import os
import sys

import pytest

HERE = os.path.dirname(os.path.dirname(os.path.abspath(__file__)))
sys.path.insert(0, HERE)
from mc import kernel  # noqa: E402

# tests/regress/*.json: one recorded counterexample per class of defect that was found by a check and then FIXED in /repo (KNOWN_FINDINGS.txt `fixed:` lines):
# they pass on the repaired tree and fail again if a defect returns
FILES = sorted(glob.glob(os.path.join(HERE, 'replays', '*', '*.json')) + glob.glob(os.path.join(HERE, 'seeded', '*', 'replay*.json')) +
               glob.glob(os.path.join(HERE, 'tests', 'regress', '*.json')))
if os.environ.get('VERIF_REGRESS_ONLY'):
    FILES = [f for f in FILES if os.sep + 'regress' + os.sep in f]


@pytest.mark.parametrize('path', FILES or [None])
def test_replay(path):
    if path is None:
        pytest.skip('no recorded violations')
    rec = json.load(open(path))
    kernel.boot()
    mod = importlib.import_module('mc.props.' + rec['property'].lower())
    ctx = kernel.Ctx()
    mod.DRIVERS[rec['driver']](ctx, kernel.unjson(rec['case']))
    assert not ctx.viol, '%s still violates %s: %s' % (path, rec['property'], ctx.viol[0]['what'])
